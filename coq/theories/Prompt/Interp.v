(** A small-step semantics for the terms of Prompt/Syntax.v: the interpreter that Prompt/Tie.v
    runs on the REGENERATED bodies of Gen/PromptFuns.v.  Definitions only (plus nothing about the
    model: Prompt/Tie.v relates the two).

    Threads and scheduling.  Every thread is a continuation (a stack of statements, loop heads,
    handler frames, call frames, the frame of `with on_prompt(..)`) over one flat environment
    (the translator prefixes every local with its function, the functions do not recurse).
    The only blocking operation is `queue.get()`.  A thread that is woken (or started) runs
    until the NEXT statement / loop condition that contains a `get` -- it stops BEFORE it, whether
    or not that get would block -- or until it returns or dies.  So a scheduling step is "the get
    the thread stands at returns an item, and the thread runs on to its next get": exactly the
    granularity of the labels of Prompt/Model.v (Relay = one pass of `while msg := queue_in.get()`,
    Take = one pass of the loop of Prompt.prompt).  Between two gets a thread is not interleaved
    with the others (as in the model).

    Modelled, not verified: queue.Queue (FIFO, thread-safe), dict / defaultdict / set, int
    identity (CPython shares the int objects -5..256 only; a number unpickled from the queue and
    a number produced by itertools.count are otherwise different objects), pluggy (the hook
    `prompt` calls Prompt.prompt, `with_.on_prompt` announces the prompt on entry and reports the
    command passed by gen.send on exit), ThreadPoolExecutor (runs the submitted call in one
    thread; `with` exit = shutdown(wait=True)), @contextmanager (a generator entered at `with`,
    resumed at exit, an exception of the body thrown into it at its yield).
    Exceptions propagate one frame per micro-step ([KRaising]): `finally` bodies run and the
    exception goes on; `except` clauses catch by class; a generator context manager gets the
    exception at its yield.  Cancellation does not exist in this code (threads, no asyncio). *)
From NL Require Export Prompt.Model Prompt.System Prompt.Syntax Gen.PromptFuns.
Open Scope Z_scope.

(** ================================================================== values *)
Inductive val :=
| VNone
| VBool (b : bool)
| VInt (z : Z)
| VStr (z : Z)                     (* a command string given to the API: index into the harness' table *)
| VCmd (i : nat) (c : cmd)         (* a PdbCommand object; i = ghost tag given by the put on queue_in *)
| VText (i : nat) (c : cmd)        (* the attribute .command of instance i *)
| VQueue (id : nat)                (* a queue.Queue object *)
| VQueueIn                         (* queue_in *)
| VMap                             (* Prompt._queue_map *)
| VSet                             (* context.open_prompts *)
| VTuple (a b : val)
| VFun (f : fname)
| VEvent (e : mev)                 (* an OnStartPrompt / OnEndPrompt event, as the main process reads it *)
| VEndEv (t p : Z) (c : val)       (* the OnEndPrompt the child builds: with the command it carries *)
| VQueueOut                        (* queue_out *)
| VEmptyStr                        (* '' *)
| VOpaque.                         (* a value the command path does not look at *)

Inductive exc := XKeyError | XAssertion.

Inductive ievent :=
| IGot (i : nat) (c : cmd)                 (* a get returned instance i *)
| ISent (i : nat)                          (* put on queue_in: instance i *)
| IPut (id : nat) (i : nat) (c : cmd)      (* put on the queue object id *)
| IStartPrompt (t p : Z)                   (* queue_out.put(OnStartPrompt(trace_no=t, prompt_no=p)) *)
| IEndPrompt (t p : Z) (v : val)           (* queue_out.put(OnEndPrompt(trace_no=t, prompt_no=p, command=v)) *)
| IHook (h : string)                       (* await ahook.h(context=context, event=event) *)
| ISentinel                                (* queue_in.put(None) *)
| ISubmit (f : fname) (args : list val).   (* executor.submit(f, args): a thread is started *)

(** ================================================================== shared state *)
Inductive dkind := DPlain | DDefault.

Record shared := mkSh {
  h_in : list icmd;               (* queue_in *)
  h_nsent : nat;                  (* ghost: number of puts on queue_in *)
  h_kind : dkind;                 (* Prompt._queue_map: dict or defaultdict(Queue) *)
  h_dict : Z -> option nat;       (* Prompt._queue_map: trace_no -> queue object *)
  h_heap : nat -> list icmd;      (* the queue objects *)
  h_next : nat;                   (* next fresh object *)
  h_ctr : Z;                      (* the prompt counter *)
  h_open : list (Z * Z);          (* context.open_prompts *)
  h_sentinel : bool;              (* a None has been put on queue_in (behind everything in h_in) *)
  h_bound : bool;                 (* context.send_command is bound (RunSession.run has been entered) *)
  h_relay_done : bool             (* the future of the relay thread is done *)
}.

Definition hset_in (sh : shared) (q : list icmd) (n : nat) : shared :=
  mkSh q n (h_kind sh) (h_dict sh) (h_heap sh) (h_next sh) (h_ctr sh) (h_open sh) (h_sentinel sh) (h_bound sh) (h_relay_done sh).
Definition hset_dict (sh : shared) (d : Z -> option nat) : shared :=
  mkSh (h_in sh) (h_nsent sh) (h_kind sh) d (h_heap sh) (h_next sh) (h_ctr sh) (h_open sh) (h_sentinel sh) (h_bound sh) (h_relay_done sh).
Definition hset_kind (sh : shared) (k : dkind) : shared :=
  mkSh (h_in sh) (h_nsent sh) k (fun _ => None) (h_heap sh) (h_next sh) (h_ctr sh) (h_open sh) (h_sentinel sh) (h_bound sh) (h_relay_done sh).
Definition hset_heap (sh : shared) (h : nat -> list icmd) : shared :=
  mkSh (h_in sh) (h_nsent sh) (h_kind sh) (h_dict sh) h (h_next sh) (h_ctr sh) (h_open sh) (h_sentinel sh) (h_bound sh) (h_relay_done sh).
Definition alloc (sh : shared) : shared :=
  mkSh (h_in sh) (h_nsent sh) (h_kind sh) (h_dict sh)
       (fun x => if Nat.eqb x (h_next sh) then [] else h_heap sh x) (S (h_next sh)) (h_ctr sh) (h_open sh)
       (h_sentinel sh) (h_bound sh) (h_relay_done sh).
Definition hset_ctr (sh : shared) (z : Z) : shared :=
  mkSh (h_in sh) (h_nsent sh) (h_kind sh) (h_dict sh) (h_heap sh) (h_next sh) z (h_open sh) (h_sentinel sh) (h_bound sh) (h_relay_done sh).
Definition hset_opens (sh : shared) (o : list (Z * Z)) : shared :=
  mkSh (h_in sh) (h_nsent sh) (h_kind sh) (h_dict sh) (h_heap sh) (h_next sh) (h_ctr sh) o (h_sentinel sh) (h_bound sh) (h_relay_done sh).
Definition hset_sentinel (sh : shared) (b : bool) : shared :=
  mkSh (h_in sh) (h_nsent sh) (h_kind sh) (h_dict sh) (h_heap sh) (h_next sh) (h_ctr sh) (h_open sh) b (h_bound sh) (h_relay_done sh).
Definition hset_bound (sh : shared) (b : bool) : shared :=
  mkSh (h_in sh) (h_nsent sh) (h_kind sh) (h_dict sh) (h_heap sh) (h_next sh) (h_ctr sh) (h_open sh) (h_sentinel sh) b (h_relay_done sh).
Definition hset_relay_done (sh : shared) (b : bool) : shared :=
  mkSh (h_in sh) (h_nsent sh) (h_kind sh) (h_dict sh) (h_heap sh) (h_next sh) (h_ctr sh) (h_open sh) (h_sentinel sh) (h_bound sh) b.

Definition hupd (h : nat -> list icmd) (k : nat) (v : list icmd) : nat -> list icmd :=
  fun x => if Nat.eqb x k then v else h x.

(** ================================================================== environments *)
Definition env := string -> option val.
Definition empty : env := fun _ => None.
Definition eupd (e : env) (x : string) (v : val) : env := fun y => if String.eqb y x then Some v else e y.

Fixpoint bind (ps : list string) (vs : list val) (e : env) : option env :=
  match ps, vs with
  | [], [] => Some e
  | p :: ps', v :: vs' => bind ps' vs' (eupd e p v)
  | _, _ => None
  end.

(** ================================================================== expressions *)
Definition truthy (v : val) : bool :=
  match v with VNone => false | VBool b => b | VInt z => negb (Z.eqb z 0) | VEmptyStr => false | _ => true end.

Fixpoint val_eqb (a b : val) : bool :=
  match a, b with
  | VNone, VNone => true
  | VBool x, VBool y => Bool.eqb x y
  | VInt x, VInt y => Z.eqb x y
  | VStr x, VStr y => Z.eqb x y
  | VTuple a1 a2, VTuple b1 b2 => val_eqb a1 b1 && val_eqb a2 b2
  | _, _ => false
  end.

(** CPython keeps one object for each of the ints -5 .. 256 *)
Definition small_int (z : Z) : bool := (-5 <=? z) && (z <=? 256).

(** `a is b` for two values that reached the comparison by different routes *)
Definition val_is (a b : val) : bool :=
  match a, b with
  | VNone, VNone => true
  | VBool x, VBool y => Bool.eqb x y
  | VInt x, VInt y => Z.eqb x y && small_int x
  | _, _ => false
  end.

Inductive eres :=
| EOk (sh : shared) (en : env) (v : val) (evs : list ievent)
| ERaise (sh : shared) (en : env) (x : exc) (evs : list ievent)
| EBlock                  (* a get on an empty queue *)
| EStuck.                 (* ill-typed for this semantics *)

Definition ebind (r : eres) (f : shared -> env -> val -> list ievent -> eres) : eres :=
  match r with EOk sh en v evs => f sh en v evs | x => x end.

Definition pre (e1 : list ievent) (r : eres) : eres :=
  match r with
  | EOk sh en v e2 => EOk sh en v (e1 ++ e2)
  | ERaise sh en x e2 => ERaise sh en x (e1 ++ e2)
  | x => x
  end.

Definition field_of (v : val) (f : field) : option val :=
  match v, f with
  | VCmd _ c, FTraceNo => Some (VInt (c_trace c))
  | VCmd _ c, FPromptNo => Some (VInt (c_prompt c))
  | VCmd i c, FCommand => Some (VText i c)
  | VEvent (MStart t n), FTraceNo | VEvent (MEnd t n), FTraceNo => Some (VInt t)
  | VEvent (MStart t n), FPromptNo | VEvent (MEnd t n), FPromptNo => Some (VInt n)
  | _, _ => None
  end.

Definition in_set (sh : shared) (a b : val) : option bool :=
  match a, b with
  | VTuple (VInt t) (VInt p), VSet => Some (mem (t, p) (h_open sh))
  | _, _ => None
  end.

Definition bin2 (ra : eres) (evb : shared -> env -> eres) (f : shared -> val -> val -> option val) : eres :=
  ebind ra (fun sh1 en1 va e1 =>
  pre e1 (ebind (evb sh1 en1) (fun sh2 en2 vb e2 =>
  match f sh2 va vb with Some v => EOk sh2 en2 v e2 | None => EStuck end))).

(** [tno]: what current_trace_no() answers in the evaluating thread *)
Fixpoint eval (tno : Z) (sh : shared) (en : env) (e : expr) {struct e} : eres :=
  let bin a b f := bin2 (eval tno sh en a) (fun sh1 en1 => eval tno sh1 en1 b) f in
  match e with
  | ENone => EOk sh en VNone []
  | EBool b => EOk sh en (VBool b) []
  | EVar x => match en x with Some v => EOk sh en v [] | None => EStuck end
  | EAttr AQueueIn => EOk sh en VQueueIn []
  | EAttr AQueueMap => EOk sh en VMap []
  | EAttr AOpenPrompts => EOk sh en VSet []
  | EAttr ASendCommand => EOk sh en (if h_bound sh then VFun FnSendCommand else VNone) []
  | EAttr AQueueOut => EOk sh en VQueueOut []
  | EEmptyStr => EOk sh en VEmptyStr []
  | EOpaque _ => EOk sh en VOpaque []
  | EOpaqueOf a => ebind (eval tno sh en a) (fun sh1 en1 v e1 => match v with VOpaque => EOk sh1 en1 VOpaque e1 | _ => EStuck end)
  | EMkStartPrompt t p => bin t p (fun _ vt vp => match vt, vp with VInt zt, VInt zp => Some (VEvent (MStart zt zp)) | _, _ => None end)
  | EMkEndPrompt t p c =>
      ebind (eval tno sh en t) (fun sh1 en1 vt e1 =>
      pre e1 (ebind (eval tno sh1 en1 p) (fun sh2 en2 vp e2 =>
      pre e2 (ebind (eval tno sh2 en2 c) (fun sh3 en3 vc e3 =>
      match vt, vp with
      | VInt zt, VInt zp => EOk sh3 en3 (VEndEv zt zp vc) e3
      | _, _ => EStuck
      end)))))
  | EFun f => EOk sh en (VFun f) []
  | EField a f =>
      ebind (eval tno sh en a) (fun sh1 en1 v e1 =>
      match field_of v f with Some w => EOk sh1 en1 w e1 | None => EStuck end)
  | EWalrus x a => ebind (eval tno sh en a) (fun sh1 en1 v e1 => EOk sh1 (eupd en1 x v) v e1)
  | ETuple a b => bin a b (fun _ va vb => Some (VTuple va vb))
  | EMkCmd t p c =>
      ebind (eval tno sh en t) (fun sh1 en1 vt e1 =>
      pre e1 (ebind (eval tno sh1 en1 p) (fun sh2 en2 vp e2 =>
      pre e2 (ebind (eval tno sh2 en2 c) (fun sh3 en3 vc e3 =>
      match vt, vp, vc with
      | VInt zt, VInt zp, VStr zc => EOk sh3 en3 (VCmd 0 (mkCmd zt zp zc)) e3
      | _, _, _ => EStuck
      end)))))
  | ENewDict => EOk (hset_kind sh DPlain) en VMap []
  | ENewDefaultDictQueue => EOk (hset_kind sh DDefault) en VMap []
  | ENewQueue => EOk (alloc sh) en (VQueue (h_next sh)) []
  | EGetItem d k =>
      ebind (eval tno sh en d) (fun sh1 en1 vd e1 =>
      pre e1 (ebind (eval tno sh1 en1 k) (fun sh2 en2 vk e2 =>
      match vd, vk with
      | VMap, VInt key =>
          match h_dict sh2 key with
          | Some id => EOk sh2 en2 (VQueue id) e2
          | None =>
              match h_kind sh2 with
              | DPlain => ERaise sh2 en2 XKeyError e2
              | DDefault => EOk (hset_dict (alloc sh2) (upd (h_dict sh2) key (Some (h_next sh2)))) en2 (VQueue (h_next sh2)) e2
              end
          end
      | _, _ => EStuck
      end)))
  | EDictGet d k =>
      ebind (eval tno sh en d) (fun sh1 en1 vd e1 =>
      pre e1 (ebind (eval tno sh1 en1 k) (fun sh2 en2 vk e2 =>
      match vd, vk with
      | VMap, VInt key => EOk sh2 en2 (match h_dict sh2 key with Some id => VQueue id | None => VNone end) e2
      | _, _ => EStuck
      end)))
  | EQueueGet q =>
      ebind (eval tno sh en q) (fun sh1 en1 vq e1 =>
      match vq with
      | VQueueIn =>
          match h_in sh1 with
          | [] => if h_sentinel sh1 then EOk (hset_sentinel sh1 false) en1 VNone e1 else EBlock
          | (i, c) :: r => EOk (hset_in sh1 r (h_nsent sh1)) en1 (VCmd i c) (e1 ++ [IGot i c])
          end
      | VQueue id =>
          match h_heap sh1 id with
          | [] => EBlock
          | (i, c) :: r => EOk (hset_heap sh1 (hupd (h_heap sh1) id r)) en1 (VCmd i c) (e1 ++ [IGot i c])
          end
      | _ => EStuck
      end)
  | EEq a b => bin a b (fun _ va vb => Some (VBool (val_eqb va vb)))
  | ENe a b => bin a b (fun _ va vb => Some (VBool (negb (val_eqb va vb))))
  | EIs a b => bin a b (fun _ va vb => Some (VBool (val_is va vb)))
  | EIsNot a b => bin a b (fun _ va vb => Some (VBool (negb (val_is va vb))))
  | EIn a b => bin a b (fun s va vb => match in_set s va vb with Some x => Some (VBool x) | None => None end)
  | ENotIn a b => bin a b (fun s va vb => match in_set s va vb with Some x => Some (VBool (negb x)) | None => None end)
  | ENot a => ebind (eval tno sh en a) (fun sh1 en1 v e1 => EOk sh1 en1 (VBool (negb (truthy v))) e1)
  | EIsPdbCommand a =>
      ebind (eval tno sh en a) (fun sh1 en1 v e1 =>
      EOk sh1 en1 (VBool (match v with VCmd _ _ => true | _ => false end)) e1)
  | ECurrentTraceNo => EOk sh en (VInt tno) []
  | ECounterNext => EOk (hset_ctr sh (h_ctr sh + counter_step)) en (VInt (h_ctr sh)) []
  end.

Fixpoint eval_list (tno : Z) (sh : shared) (en : env) (es : list expr) : option (shared * env * list val * list ievent) :=
  match es with
  | [] => Some (sh, en, [], [])
  | e :: r =>
      match eval tno sh en e with
      | EOk sh1 en1 v e1 =>
          match eval_list tno sh1 en1 r with
          | Some (sh2, en2, vs, e2) => Some (sh2, en2, v :: vs, e1 ++ e2)
          | None => None
          end
      | _ => None            (* an argument that raises or blocks: not in this fragment *)
      end
  end.

Fixpoint has_get (e : expr) : bool :=
  match e with
  | EQueueGet _ => true
  | EField a _ | EWalrus _ a | ENot a | EIsPdbCommand a => has_get a
  | ETuple a b | EGetItem a b | EDictGet a b | EEq a b | ENe a b | EIs a b | EIsNot a b | EIn a b | ENotIn a b => has_get a || has_get b
  | EMkCmd a b c | EMkEndPrompt a b c => has_get a || has_get b || has_get c
  | EMkStartPrompt a b => has_get a || has_get b
  | EOpaqueOf a => has_get a
  | _ => false
  end.

(** ================================================================== threads *)
(** why the frames of a generator are on this thread's stack *)
Inductive gdelim :=
| DEnter (b : stmt)     (* started by `with gen(..): b`: at its first yield the body b runs *)
| DSend                 (* resumed by gen.send(v): at its next yield the sender goes on *)
| DExit                 (* resumed because the with body ended: must run to its end *)
| DThrow.               (* an exception of the with body was thrown into it *)

Inductive kitem :=
| KS (s : stmt)                       (* a statement still to be executed *)
| KLoop (c : expr) (b : stmt)         (* at the head of `while c: b` *)
| KTry (h : handles) (hb : stmt)      (* inside the body of try ... except h: hb *)
| KHandling (x : exc)                 (* inside a handler of x (a bare `raise` re-raises x) *)
| KFin (f : stmt)                     (* inside the body of try ... finally: f *)
| KRaising (x : exc)                  (* x is propagating through the frames below *)
| KRet (dst : option string)          (* call frame: `return v` binds dst and goes on behind it *)
| KRecv (dst : option string)         (* head of a SUSPENDED generator: `[dst =] yield` waits for a value *)
| KGenDelim (d : gdelim)              (* below the frames of a generator running on this thread *)
| KWith (g : list kitem)              (* inside `with <generator>`: the suspended generator *)
| KExecExit                           (* inside `with ThreadPoolExecutor(..)`: exit = shutdown(wait=True) *)
| KWaitRelay.                         (* waiting for the relay thread's future *)
Notation cont := (list kitem).

Record thread := mkT { t_no : Z; t_env : env; t_k : cont }.

Definition stmt_has_get (s : stmt) : bool :=
  match s with
  | SAssign _ e | SExpr e | SAssert e | SReturn e | SIf e _ _ | SGenSend e | SSetClear e => has_get e
  | SPut a b | SDelItem a b | SPopItem a b | SSetAdd a b | SSetDiscard a b | SSetRemove a b => has_get a || has_get b
  | SSetItem a b c => has_get a || has_get b || has_get c
  | SCall _ _ args | SWithGen _ args _ | SSubmit _ args => existsb has_get args
  | SFutureResult => true
  | _ => false
  end.

Fixpoint has_delim (k : cont) : bool :=
  match k with [] => false | KGenDelim _ :: _ => true | _ :: r => has_delim r end.

(** the thread stands before an operation that may block: a get, the wait for the future, or the
    yield of a generator that IS the thread (a context manager entered by the framework) *)
Definition at_get (k : cont) : bool :=
  match k with
  | KS (SYield _) :: r => negb (has_delim r)
  | KS s :: _ => stmt_has_get s
  | KLoop c _ :: _ => has_get c
  | KWaitRelay :: _ => true
  | _ => false
  end.

Definition catches (h : handles) (x : exc) : bool :=
  match h, x with
  | HBaseException, _ | HException, _ => true
  | HAssertionError, XAssertion => true
  | HKeyError, XKeyError => true
  | _, _ => false
  end.

(** a bare `raise`: the exception being handled, and the stack outside its handler *)
Fixpoint handled (k : cont) : option (exc * cont) :=
  match k with
  | [] => None
  | KHandling x :: r => Some (x, r)
  | KRet _ :: _ | KGenDelim _ :: _ | KWith _ :: _ | KFin _ :: _ | KExecExit :: _ => None
  | _ :: r => handled r
  end.

Fixpoint to_loop (k : cont) : option cont :=
  match k with
  | [] => None
  | KLoop c b :: r => Some (KLoop c b :: r)
  | KRet _ :: _ | KWith _ :: _ | KFin _ :: _ | KGenDelim _ :: _ | KExecExit :: _ => None
  | _ :: r => to_loop r
  end.

Fixpoint out_of_loop (k : cont) : option cont :=
  match k with
  | [] => None
  | KLoop _ _ :: r => Some r
  | KRet _ :: _ | KWith _ :: _ | KFin _ :: _ | KGenDelim _ :: _ | KExecExit :: _ => None
  | _ :: r => out_of_loop r
  end.

(** `return`: the nearest call frame; RetTop = the thread's outermost function.  A return that
    would leave a with / finally / generator is not in this fragment. *)
Inductive retres := RetTo (dst : option string) (k : cont) | RetTop | RetStuck.
Fixpoint to_frame (k : cont) : retres :=
  match k with
  | [] => RetTop
  | KRet dst :: r => RetTo dst r
  | KWith _ :: _ | KFin _ :: _ | KGenDelim _ :: _ | KExecExit :: _ => RetStuck
  | _ :: r => to_frame r
  end.

(** the frames of the running generator, why it runs, the rest of the thread *)
Fixpoint split_delim (k : cont) : option (cont * gdelim * cont) :=
  match k with
  | [] => None
  | KGenDelim d :: r => Some ([], d, r)
  | x :: r => match split_delim r with Some (a, d, b) => Some (x :: a, d, b) | None => None end
  end.

(** the suspended generator of the nearest enclosing with (taken out / put back) *)
Fixpoint take_with (k : cont) : option (cont * cont) :=
  match k with
  | [] => None
  | KWith g :: r => Some (g, KWith [] :: r)
  | KRet _ :: _ | KGenDelim _ :: _ => None
  | x :: r => match take_with r with Some (g, r') => Some (g, x :: r') | None => None end
  end.
Fixpoint put_with (g : cont) (k : cont) : option cont :=
  match k with
  | [] => None
  | KWith [] :: r => Some (KWith g :: r)
  | KWith _ :: _ | KRet _ :: _ | KGenDelim _ :: _ => None
  | x :: r => match put_with g r with Some r' => Some (x :: r') | None => None end
  end.

Definition fun_def (f : fname) : list string * stmt :=
  match f with
  | FnTryAgain => (try_again_params, try_again_body)
  | FnFn => ([], fn_body)
  | FnPrompt => (prompt_params, prompt_body)
  | FnSendCommand => (send_command_params, send_command_body)
  | FnSender => (sender_params, sender_body)
  | FnImpSend => (imp_params, imp_body)
  end.

Definition gen_def (g : gname) : list string * stmt :=
  match g with
  | GRelayCommands => ([], relay_commands_body)
  | GOnPrompt => (on_prompt_params, on_prompt_body)
  end.

Inductive mres :=
| MNext (sh : shared) (th : thread) (evs : list ievent)
| MBlocked
| MDone (v : val)
| MDied (sh : shared) (x : exc) (evs : list ievent)
| MStuck.

(** raising: the exception starts to propagate through the frames (one frame per micro-step) *)
Definition do_raise (sh : shared) (tno : Z) (en : env) (k : cont) (x : exc) (evs : list ievent) : mres :=
  MNext sh (mkT tno en (KRaising x :: k)) evs.

Definition after (tno : Z) (k : cont) (r : eres) (f : shared -> env -> val -> list ievent -> mres) : mres :=
  match r with
  | EOk sh en v evs => f sh en v evs
  | ERaise sh en x evs => do_raise sh tno en k x evs
  | EBlock => MBlocked
  | EStuck => MStuck
  end.

Definition bind_dst (dst : option string) (en : env) (v : val) : env :=
  match dst with Some x => eupd en x v | None => en end.

(** one micro-step of a thread *)
Definition mstep (sh : shared) (th : thread) : mres :=
  let tno := t_no th in
  let en := t_env th in
  let go sh' en' k' evs := MNext sh' (mkT tno en' k') evs in
  match t_k th with
  | [] => MDone VNone
  | KLoop c b :: k =>
      after tno k (eval tno sh en c) (fun sh1 en1 v e1 =>
        if truthy v then go sh1 en1 (KS b :: KLoop c b :: k) e1 else go sh1 en1 k e1)
  | KTry _ _ :: k => go sh en k []
  | KHandling _ :: k => go sh en k []
  | KFin f :: k => go sh en (KS f :: k) []                       (* the body ended normally *)
  | KRet dst :: k => go sh (bind_dst dst en VNone) k []
  | KRecv _ :: _ => MStuck                                       (* a suspended generator does not run by itself *)
  | KWith g :: k =>                                              (* the with body ended normally: the generator is resumed *)
      match g with
      | KRecv dst :: g' => go sh (bind_dst dst en VNone) (g' ++ KGenDelim DExit :: k) []
      | _ => MStuck
      end
  | KGenDelim d :: k =>                                          (* the generator ran to its end *)
      match d with
      | DExit | DThrow => go sh en k []                          (* DThrow: it swallowed the exception *)
      | DEnter _ | DSend => MStuck                               (* "generator didn't yield" *)
      end
  | KExecExit :: k => go sh en (KWaitRelay :: k) []
  | KWaitRelay :: k => if h_relay_done sh then go sh en k [] else MBlocked
  | KRaising x :: k =>
      match k with
      | [] => MDied sh x []
      | KTry h hb :: r => if catches h x then go sh en (KS hb :: KHandling x :: r) [] else go sh en (KRaising x :: r) []
      | KFin f :: r => go sh en (KS f :: KRaising x :: r) []     (* finally: f, then the exception goes on *)
      | KWith g :: r =>                                          (* thrown into the generator at its yield *)
          match g with
          | KRecv _ :: g' => go sh en (KRaising x :: g' ++ KGenDelim DThrow :: r) []
          | _ => MStuck
          end
      | KExecExit :: r => go sh en (KWaitRelay :: KRaising x :: r) []
      | _ :: r => go sh en (KRaising x :: r) []
      end
  | KS s :: k =>
    match s with
    | SSkip => go sh en k []
    | SSeq a b => go sh en (KS a :: KS b :: k) []
    | SAssign x e => after tno k (eval tno sh en e) (fun sh1 en1 v e1 => go sh1 (eupd en1 x v) k e1)
    | SExpr e => after tno k (eval tno sh en e) (fun sh1 en1 _ e1 => go sh1 en1 k e1)
    | SCall dst f args =>
        match eval_list tno sh en args with
        | Some (sh1, en1, vs, e1) =>
            match (match f with
                   | CFn g => Some g
                   | CVar x => match en1 x with Some (VFun g) => Some g | _ => None end
                   | CAttr ASendCommand => if h_bound sh1 then Some FnSendCommand else None
                   | CAttr _ => None
                   end) with
            | Some g =>
                match bind (fst (fun_def g)) vs en1 with
                | Some en2 => go sh1 en2 (KS (snd (fun_def g)) :: KRet dst :: k) e1
                | None => MStuck
                end
            | None => MStuck
            end
        | None => MStuck
        end
    | SSetItem d key v =>
        after tno k (eval tno sh en d) (fun sh1 en1 vd e1 =>
        after tno k (eval tno sh1 en1 key) (fun sh2 en2 vk e2 =>
        after tno k (eval tno sh2 en2 v) (fun sh3 en3 vv e3 =>
        match vd, vk, vv with
        | VMap, VInt z, VQueue id => go (hset_dict sh3 (upd (h_dict sh3) z (Some id))) en3 k (e1 ++ e2 ++ e3)
        | _, _, _ => MStuck
        end)))
    | SDelItem d key =>
        after tno k (eval tno sh en d) (fun sh1 en1 vd e1 =>
        after tno k (eval tno sh1 en1 key) (fun sh2 en2 vk e2 =>
        match vd, vk with
        | VMap, VInt z =>
            match h_dict sh2 z with
            | Some _ => go (hset_dict sh2 (upd (h_dict sh2) z None)) en2 k (e1 ++ e2)
            | None => do_raise sh2 tno en2 k XKeyError (e1 ++ e2)
            end
        | _, _ => MStuck
        end))
    | SPopItem d key =>
        after tno k (eval tno sh en d) (fun sh1 en1 vd e1 =>
        after tno k (eval tno sh1 en1 key) (fun sh2 en2 vk e2 =>
        match vd, vk with
        | VMap, VInt z => go (hset_dict sh2 (upd (h_dict sh2) z None)) en2 k (e1 ++ e2)
        | _, _ => MStuck
        end))
    | SPut q v =>
        after tno k (eval tno sh en q) (fun sh1 en1 vq e1 =>
        after tno k (eval tno sh1 en1 v) (fun sh2 en2 vv e2 =>
        match vq, vv with
        | VQueueIn, VCmd _ c =>
            if h_sentinel sh2 then MStuck        (* a command behind the sentinel: nobody reads it; not in this fragment *)
            else go (hset_in sh2 (h_in sh2 ++ [(h_nsent sh2, c)]) (S (h_nsent sh2))) en2 k (e1 ++ e2 ++ [ISent (h_nsent sh2)])
        | VQueueIn, VNone =>
            if h_sentinel sh2 then MStuck else go (hset_sentinel sh2 true) en2 k (e1 ++ e2 ++ [ISentinel])
        | VQueue id, VCmd i c =>
            go (hset_heap sh2 (hupd (h_heap sh2) id (h_heap sh2 id ++ [(i, c)]))) en2 k (e1 ++ e2 ++ [IPut id i c])
        | VQueueOut, VEvent (MStart t p) => go sh2 en2 k (e1 ++ e2 ++ [IStartPrompt t p])
        | VQueueOut, VEndEv t p c => go sh2 en2 k (e1 ++ e2 ++ [IEndPrompt t p c])
        | _, _ => MStuck
        end))
    | SAssert e =>
        after tno k (eval tno sh en e) (fun sh1 en1 v e1 =>
        if truthy v then go sh1 en1 k e1 else do_raise sh1 tno en1 k XAssertion e1)
    | SIf c a b =>
        after tno k (eval tno sh en c) (fun sh1 en1 v e1 => go sh1 en1 (KS (if truthy v then a else b) :: k) e1)
    | SWhile c b => go sh en (KLoop c b :: k) []
    | SContinue => match to_loop k with Some k' => go sh en k' [] | None => MStuck end
    | SBreak => match out_of_loop k with Some k' => go sh en k' [] | None => MStuck end
    | SReturn e =>
        after tno k (eval tno sh en e) (fun sh1 en1 v e1 =>
        match to_frame k with
        | RetTo dst k' => go sh1 (bind_dst dst en1 v) k' e1
        | RetTop => MNext sh1 (mkT tno (eupd en1 "<returned>"%string v) []) e1
        | RetStuck => MStuck
        end)
    | SRaise => match handled k with Some (x, k') => do_raise sh tno en k' x [] | None => MStuck end
    | STry b h hb => go sh en (KS b :: KTry h hb :: k) []
    | STryFinally b f => go sh en (KS b :: KFin f :: k) []
    | SWithGen g args b =>
        match eval_list tno sh en args with
        | Some (sh1, en1, vs, e1) =>
            match bind (fst (gen_def g)) vs en1 with
            | Some en2 => go sh1 en2 (KS (snd (gen_def g)) :: KGenDelim (DEnter b) :: k) e1
            | None => MStuck
            end
        | None => MStuck
        end
    | SYield dst =>
        match split_delim k with
        | Some (g, DEnter b, r) => go sh en (KS b :: KWith (KRecv dst :: g) :: r) []
        | Some (g, DSend, r) => match put_with (KRecv dst :: g) r with Some r' => go sh en r' [] | None => MStuck end
        | Some (_, DExit, _) | Some (_, DThrow, _) => MStuck       (* "generator didn't stop" *)
        | None => MBlocked                                         (* the generator IS the thread: resumed by the framework *)
        end
    | SGenSend e =>
        after tno k (eval tno sh en e) (fun sh1 en1 v e1 =>
        match take_with k with
        | Some (KRecv dst :: g, k') => go sh1 (bind_dst dst en1 v) (g ++ KGenDelim DSend :: k') e1
        | _ => MStuck
        end)
    | SWithExecutor b => go sh en (KS b :: KExecExit :: k) []
    | SSubmit f args =>
        match eval_list tno sh en args with
        | Some (sh1, en1, vs, e1) => go sh1 en1 k (e1 ++ [ISubmit f vs])
        | None => MStuck
        end
    | SFutureResult => if h_relay_done sh then go sh en k [] else MBlocked
    | SSetAdd s e =>
        after tno k (eval tno sh en s) (fun sh1 en1 vs e1 =>
        after tno k (eval tno sh1 en1 e) (fun sh2 en2 ve e2 =>
        match vs, ve with
        | VSet, VTuple (VInt t) (VInt p) => go (hset_opens sh2 ((t, p) :: h_open sh2)) en2 k (e1 ++ e2)
        | _, _ => MStuck
        end))
    | SSetDiscard s e =>
        after tno k (eval tno sh en s) (fun sh1 en1 vs e1 =>
        after tno k (eval tno sh1 en1 e) (fun sh2 en2 ve e2 =>
        match vs, ve with
        | VSet, VTuple (VInt t) (VInt p) => go (hset_opens sh2 (remove_pair (t, p) (h_open sh2))) en2 k (e1 ++ e2)
        | _, _ => MStuck
        end))
    | SSetRemove s e =>
        after tno k (eval tno sh en s) (fun sh1 en1 vs e1 =>
        after tno k (eval tno sh1 en1 e) (fun sh2 en2 ve e2 =>
        match vs, ve with
        | VSet, VTuple (VInt t) (VInt p) =>
            if mem (t, p) (h_open sh2) then go (hset_opens sh2 (remove_pair (t, p) (h_open sh2))) en2 k (e1 ++ e2)
            else do_raise sh2 tno en2 k XKeyError (e1 ++ e2)
        | _, _ => MStuck
        end))
    | SSetClear s =>
        after tno k (eval tno sh en s) (fun sh1 en1 vs e1 =>
        match vs with VSet => go (hset_opens sh1 []) en1 k e1 | _ => MStuck end)
    | SAwaitHook h => go sh en k [IHook h]
    | SNewQueueIn => go (hset_sentinel (hset_in sh [] (h_nsent sh)) false) en k []
    | SBindSendCommand => go (hset_bound sh true) en k []
    | SSpawn => go sh en k []
    end
  end.

(** the value of the thread's outermost `return` *)
Definition returned (th : thread) : val := match t_env th "<returned>"%string with Some v => v | None => VNone end.

Inductive rres :=
| RAtGet (sh : shared) (th : thread) (evs : list ievent)    (* the thread stands before its next blocking operation *)
| RBlocked                                                  (* the operation it stood at cannot complete: nothing happened *)
| RDone (sh : shared) (v : val) (evs : list ievent)         (* its outermost function returned v *)
| RDied (sh : shared) (x : exc) (evs : list ievent)         (* an exception left its outermost function *)
| RStuck.

Fixpoint run (fuel : nat) (sh : shared) (th : thread) (evs : list ievent) : rres :=
  match fuel with
  | O => RStuck
  | S f =>
    match mstep sh th with
    | MNext sh' th' e => if at_get (t_k th') then RAtGet sh' th' (evs ++ e) else run f sh' th' (evs ++ e)
    | MBlocked => RStuck
    | MDone _ => RDone sh (returned th) evs
    | MDied sh' x e => RDied sh' x (evs ++ e)
    | MStuck => RStuck
    end
  end.

(** wake (or start) a thread *)
Definition resume (fuel : nat) (sh : shared) (th : thread) : rres :=
  match mstep sh th with
  | MBlocked => RBlocked
  | MNext sh' th' e => if at_get (t_k th') then RAtGet sh' th' e else run fuel sh' th' e
  | MDone _ => RDone sh (returned th) []
  | MDied sh' x e => RDied sh' x e
  | MStuck => RStuck
  end.

Definition FUEL : nat := 120%nat.

(** a fresh thread that calls a function *)
Definition call (tno : Z) (ps : list string) (body : stmt) (args : list val) : option thread :=
  match bind ps args empty with
  | Some en => Some (mkT tno en [KS body])
  | None => None
  end.

(** a thread that is a generator, standing at its yield, is resumed by whoever entered it:
    normally (the protected body ended) or with an exception (the protected body raised) *)
Definition after_yield (th : thread) (x : option exc) : option thread :=
  match t_k th with
  | KS (SYield dst) :: k =>
      Some (mkT (t_no th) (bind_dst dst (t_env th) VNone) (match x with Some e => KRaising e :: k | None => k end))
  | _ => None
  end.
