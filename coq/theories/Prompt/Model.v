(** Executable model of the child-side command path of nextline:
    nextline/spawned/plugin/plugins/pdb_/prompt.py (Prompt, relay_commands,
    try_again_on_error) and pdb_/factory.py (PromptFunc, PromptNoCounter).
    Definitions only; proofs are in Prompt/Inv.v, Prompt/Erase.v.

    Threads involved: the sender (main process, `SendCommand`: queue_in.put),
    the relay thread (`relay_commands.fn`), one thread per trace (blocked in
    `Prompt.prompt` while its prompt is open) and the thread that starts/ends
    traces.  Every scheduler choice is a label; "for every schedule" = "for
    every list of labels". *)
From Coq Require Export List ZArith Bool Arith Lia.
Export ListNotations.
Open Scope Z_scope.

(** `PdbCommand(trace_no, prompt_no, command)`; the command text is an index
    into a table kept by the harness. *)
Record cmd := mkCmd { c_trace : Z; c_prompt : Z; c_text : Z }.

(** A queued command together with a ghost tag: the ordinal of the `Send`
    that produced it (it identifies the *instance*; it never influences a
    branch of the model). *)
Notation icmd := (nat * cmd)%type.

Record state := mkSt {
  s_in : list icmd;                   (* queue_in (FIFO) *)
  s_map : Z -> option (list icmd);    (* Prompt._queue_map : trace_no -> Queue *)
  s_open : Z -> option Z;             (* trace_no -> prompt_no its thread is blocked on in Prompt.prompt *)
  s_ctr : Z;                          (* next value of PromptNoCounter(1) *)
  s_nsent : nat                       (* ghost: number of Send so far *)
}.

Definition init : state := mkSt [] (fun _ => None) (fun _ => None) 1 0.

Definition upd {A} (f : Z -> A) (k : Z) (v : A) : Z -> A :=
  fun x => if Z.eqb x k then v else f x.

Inductive label :=
| Send (c : cmd)        (* SendCommand: queue_in.put(PdbCommand) *)
| Relay                 (* one iteration of `while msg := queue_in.get()` in relay_commands.fn *)
| StartTrace (t : Z)    (* Prompt.on_start_trace *)
| EndTrace (t : Z)      (* Prompt.on_end_trace *)
| OpenPrompt (t : Z)    (* PromptFunc._prompt_func: counter(), on_prompt, entry of Prompt.prompt *)
| Take (t : Z).         (* one iteration of `while True: pdb_command = queue.get() ...` *)

Inductive out :=
| OSent (i : nat)
| ORelayed (i : nat)            (* queue_map[msg.trace_no].put(msg) *)
| ODropped (i : nat)            (* KeyError, swallowed by try_again_on_error; fn restarts *)
| OIdle                         (* queue_in empty: the relay thread stays blocked in get() *)
| OStarted | OEnded
| OOpened (p : Z)               (* OnStartPrompt(trace, p) *)
| OExec (p : Z) (i : nat) (c : cmd)   (* return pdb_command.command: OnEndPrompt(trace, p, command) *)
| ODiscard (p : Z) (i : nat) (c : cmd)   (* 'PromptNo mismatch: n != p' warning; continue *)
| OBlocked                      (* the trace's queue is empty: blocked in queue.get() *)
| OAssert (i : nat)             (* `assert pdb_command.trace_no == trace_no` fails *)
| ONotEnabled.                  (* the label cannot occur in this state (see each case) *)

Definition set_in (s : state) (q : list icmd) : state :=
  mkSt q (s_map s) (s_open s) (s_ctr s) (s_nsent s).
Definition set_map (s : state) (m : Z -> option (list icmd)) : state :=
  mkSt (s_in s) m (s_open s) (s_ctr s) (s_nsent s).
Definition set_open (s : state) (o : Z -> option Z) : state :=
  mkSt (s_in s) (s_map s) o (s_ctr s) (s_nsent s).

Definition step (s : state) (l : label) : state * out :=
  match l with
  | Send c =>
    (mkSt (s_in s ++ [(s_nsent s, c)]) (s_map s) (s_open s) (s_ctr s) (S (s_nsent s)),
     OSent (s_nsent s))
  | Relay =>
    match s_in s with
    | [] => (s, OIdle)
    | (i, c) :: r =>
      match s_map s (c_trace c) with
      | Some q => (set_map (set_in s r) (upd (s_map s) (c_trace c) (Some (q ++ [(i, c)]))), ORelayed i)
      | None => (set_in s r, ODropped i)      (* KeyError -> try_again_on_error -> fn() again *)
      end
    end
  | StartTrace t =>
    (* `self._queue_map[trace_no] = Queue()`.  Trace numbers come from
       TraceNoCounter, so a live number is never started again (C06). *)
    match s_map s t with
    | Some _ => (s, ONotEnabled)
    | None => (set_map s (upd (s_map s) t (Some [])), OStarted)
    end
  | EndTrace t =>
    (* `del self._queue_map[trace_no]`; called when the thread/task is done,
       hence never while its prompt is open. *)
    match s_map s t, s_open s t with
    | Some _, None => (set_map s (upd (s_map s) t None), OEnded)
    | _, _ => (s, ONotEnabled)
    end
  | OpenPrompt t =>
    (* prompt_no = counter(); ...; queue = self._queue_map[trace_no] *)
    match s_map s t, s_open s t with
    | Some _, None =>
      (mkSt (s_in s) (s_map s) (upd (s_open s) t (Some (s_ctr s))) (s_ctr s + 1) (s_nsent s),
       OOpened (s_ctr s))
    | _, _ => (s, ONotEnabled)
    end
  | Take t =>
    match s_open s t, s_map s t with
    | Some p, Some q =>
      match q with
      | [] => (s, OBlocked)
      | (i, c) :: r =>
        let s1 := set_map s (upd (s_map s) t (Some r)) in
        if negb (Z.eqb (c_trace c) t) then (set_open s1 (upd (s_open s) t None), OAssert i)
        else if Z.eqb (c_prompt c) p then (set_open s1 (upd (s_open s) t None), OExec p i c)
        else (s1, ODiscard p i c)
      end
    | _, _ => (s, ONotEnabled)
    end
  end.

(** the observable history: each label with what it did *)
Fixpoint trace_from (s : state) (ls : list label) : list (label * out) :=
  match ls with
  | [] => []
  | l :: r => (l, snd (step s l)) :: trace_from (fst (step s l)) r
  end.

Fixpoint exec_from (s : state) (ls : list label) : state :=
  match ls with
  | [] => s
  | l :: r => exec_from (fst (step s l)) r
  end.

Definition trace (ls : list label) : list (label * out) := trace_from init ls.
Definition final (ls : list label) : state := exec_from init ls.
Definition outs (ls : list label) : list out := map snd (trace ls).
