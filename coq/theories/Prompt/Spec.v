(** What "decoy" means.  Definitions only (functions / predicates of the
    observable history). *)
From NL Require Export Prompt.Model Prompt.Hist.
Open Scope Z_scope.

(** instance i, carrying c, is sent right after the history [pre] *)
Definition sent_at (tr : list ev) (i : nat) (c : cmd) (pre : list ev) : Prop :=
  exists post, tr = pre ++ (Send c, OSent i) :: post.

(** The property text classifies a command when it is SENT: it is a decoy iff
    it is not addressed to the prompt its trace has open at that moment, i.e.
    it is addressed to "an already answered, a future, another trace's or a
    non-existent prompt". *)
Definition decoy_at_send (tr : list ev) (i : nat) : Prop :=
  exists pre c, sent_at tr i c pre /\ open_in pre (c_trace c) <> Some (c_prompt c).

(** Weaker classification: from the moment the instance has reached its
    trace's queue on, the prompt it addresses is never the open one. *)
Definition decoy_after_arrival (tr : list ev) (i : nat) (c : cmd) : Prop :=
  forall pre post, tr = pre ++ post -> In i (relayed pre) ->
                   open_in pre (c_trace c) <> Some (c_prompt c).

(** a decision procedure for [decoy_after_arrival] on a concrete history *)
Definition arrival_check (tr : list ev) (i : nat) (c : cmd) : bool :=
  forallb (fun n => let pre := firstn n tr in
                    negb (existsb (Nat.eqb i) (relayed pre))
                    || negb (match open_in pre (c_trace c) with Some p => Z.eqb p (c_prompt c) | None => false end))
          (seq 0 (S (length tr))).

(** Hypothesis that excludes the known finding: whenever a command reaches a
    trace's queue, the prompt number it carries has already been issued (the
    prompt counter has passed it) -- no command for a not-yet-open prompt number
    is ever queued.  [1 + length (opens pre)] is the value of the run-unique
    prompt counter after the history [pre]. *)
Definition no_future_queued (tr : list ev) : Prop :=
  forall pre i post c, tr = pre ++ (Relay, ORelayed i) :: post ->
                       nth_error (sends tr) i = Some c ->
                       c_prompt c < 1 + Z.of_nat (length (opens pre)).
