(** The command path of the whole system: the child (Prompt/Model.v) composed
    with the main process' filter (nextline/plugin/plugins/session/monitor.py:
    OnEvent.on_event_in_process keeps context.open_prompts; session.py:
    CommandSender.send_command forwards a PdbCommand only if its (trace, prompt)
    is in that set).  The events OnStartPrompt / OnEndPrompt travel from the
    child to the main process through a FIFO (queue_out, relay_events), so the
    main process' view lags behind the child.  Definitions only. *)
From NL Require Export Prompt.Model Prompt.Hist.
Open Scope Z_scope.

Inductive mev := MStart (t n : Z) | MEnd (t n : Z).      (* OnStartPrompt / OnEndPrompt on their way to main *)

Record sstate := mkS {
  ch : state;                 (* the child *)
  evq : list mev;             (* queue_out: events not yet processed by the main process *)
  mopen : list (Z * Z)        (* context.open_prompts *)
}.
Definition sinit : sstate := mkS init [] [].

Inductive slabel :=
| SChild (l : label)          (* a step of the child: Relay, StartTrace, EndTrace, OpenPrompt, Take (not Send) *)
| SMain                       (* the main process handles the next event (on_event_in_process) *)
| SApi (c : cmd).             (* Nextline.send_pdb_command -> CommandSender.send_command *)

Inductive sout :=
| SOut (o : out)
| SNotALabel                  (* SChild (Send _): only the main process puts commands into queue_in *)
| SSaw (e : mev)
| SIdle
| SForwarded (i : nat)        (* context.send_command(command): queue_in.put *)
| SDropped.                   (* 'No open prompt for the command' *)

Definition pair_eqb (a b : Z * Z) : bool := Z.eqb (fst a) (fst b) && Z.eqb (snd a) (snd b).
Definition mem (x : Z * Z) (l : list (Z * Z)) : bool := existsb (pair_eqb x) l.
Definition remove_pair (x : Z * Z) (l : list (Z * Z)) : list (Z * Z) := filter (fun y => negb (pair_eqb x y)) l.

(** what the child puts on queue_out (only the two events the filter uses) *)
Definition emitted (l : label) (o : out) : list mev :=
  match l, o with
  | OpenPrompt t, OOpened n => [MStart t n]
  | Take t, OExec n _ _ => [MEnd t n]
  | _, _ => []
  end.

Definition see (m : list (Z * Z)) (e : mev) : list (Z * Z) :=
  match e with MStart t n => (t, n) :: m | MEnd t n => remove_pair (t, n) m end.

(** the child label a system label amounts to in state s, if any *)
Definition child_label (s : sstate) (l : slabel) : option label :=
  match l with
  | SChild (Send _) => None
  | SChild l' => Some l'
  | SMain => None
  | SApi c => if mem (c_trace c, c_prompt c) (mopen s) then Some (Send c) else None
  end.

Definition sstep (s : sstate) (l : slabel) : sstate * sout :=
  match l with
  | SChild (Send _) => (s, SNotALabel)
  | SChild l' => (mkS (fst (step (ch s) l')) (evq s ++ emitted l' (snd (step (ch s) l'))) (mopen s), SOut (snd (step (ch s) l')))
  | SMain =>
    match evq s with
    | [] => (s, SIdle)
    | e :: r => (mkS (ch s) r (see (mopen s) e), SSaw e)
    end
  | SApi c =>
    if mem (c_trace c, c_prompt c) (mopen s)
    then (mkS (fst (step (ch s) (Send c))) (evq s) (mopen s), SForwarded (s_nsent (ch s)))
    else (s, SDropped)
  end.

Notation sev := (slabel * sout)%type.

Fixpoint strace_from (s : sstate) (ls : list slabel) : list sev :=
  match ls with [] => [] | l :: r => (l, snd (sstep s l)) :: strace_from (fst (sstep s l)) r end.
Fixpoint sexec_from (s : sstate) (ls : list slabel) : sstate :=
  match ls with [] => s | l :: r => sexec_from (fst (sstep s l)) r end.
Fixpoint sproj_from (s : sstate) (ls : list slabel) : list label :=
  match ls with
  | [] => []
  | l :: r => (match child_label s l with Some l' => [l'] | None => [] end) ++ sproj_from (fst (sstep s l)) r
  end.

Definition strace (ls : list slabel) := strace_from sinit ls.
Definition sfinal (ls : list slabel) := sexec_from sinit ls.
(** the label sequence the child performs in the system run *)
Definition sproj (ls : list slabel) : list label := sproj_from sinit ls.
(** ... and its observable history: all child-level notions apply to it *)
Definition ctrace (ls : list slabel) : list ev := trace (sproj ls).

(** the main process' view as a function of the system history *)
Definition seen_step (m : list (Z * Z)) (e : sev) : list (Z * Z) :=
  match e with (SMain, SSaw x) => see m x | _ => m end.
Definition seen_open (tr : list sev) : list (Z * Z) := fold_left seen_step tr [].

(** every command in queue_in was addressed to a prompt the child had issued
    when the command was sent *)
Definition sent_issued (tr : list ev) : Prop :=
  forall pre c o post, tr = pre ++ (Send c, o) :: post -> In (c_trace c, c_prompt c) (opens pre).
