(** Comparison functions for the system-level correspondence (harness/props/c07_system.py).  Definitions only. *)
From NL Require Export Prompt.Corr Prompt.System.
Open Scope Z_scope.

(** forwarded (true) / dropped (false), one per API call, in order *)
Fixpoint api_outs (tr : list sev) : list bool :=
  match tr with
  | [] => []
  | (SApi _, SForwarded _) :: r => true :: api_outs r
  | (SApi _, SDropped) :: r => false :: api_outs r
  | _ :: r => api_outs r
  end.

Record sobserved := mkSObs {
  so_opens : list (Z * Z);          (* prompts in the order the main process saw them start *)
  so_execs : list (Z * Z * Z);      (* (trace, prompt, command) of every prompt the main process saw end *)
  so_fw : list bool                 (* per send_command call: was (trace, prompt) in context.open_prompts *)
}.

Definition sagrees (sls : list slabel) (o : sobserved) : bool :=
  list_eqb eq2 (opens (ctrace sls)) (so_opens o)
  && Nat.eqb (length (exec3 (ctrace sls))) (length (so_execs o))
  && forallb (fun e => existsb (eq3 e) (exec3 (ctrace sls))) (so_execs o)
  && list_eqb Bool.eqb (api_outs (strace sls)) (so_fw o).

Fixpoint sbad_from (n : nat) (cases : list (list slabel * sobserved)) : list nat :=
  match cases with
  | [] => []
  | (ls, o) :: r => if sagrees ls o then sbad_from (S n) r else n :: sbad_from (S n) r
  end.
