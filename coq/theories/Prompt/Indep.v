(** Independence of traces in the command path: nothing a trace t does or
    fails to do (in particular staying blocked at an open prompt) changes what
    the labels of the other traces, the sender and the relay thread do.  There
    is no shared blocking resource: the per-trace queues are unbounded, the
    relay never waits for a reader, and a prompt loop only reads its own queue. *)
From NL Require Import Prompt.Model Prompt.Hist Prompt.Inv.
Open Scope Z_scope.

(** the two states differ at most in what concerns trace t (its queue content
    and whether its prompt is open); t is live in both or in neither *)
Record Rel (t : Z) (s1 s2 : state) : Prop := {
  r_in : s_in s1 = s_in s2;
  r_nsent : s_nsent s1 = s_nsent s2;
  r_ctr : s_ctr s1 = s_ctr s2;
  r_map : forall x, x <> t -> s_map s1 x = s_map s2 x;
  r_open : forall x, x <> t -> s_open s1 x = s_open s2 x;
  r_live : s_map s1 t = None <-> s_map s2 t = None
}.

(** labels that are not steps of trace t's own thread *)
Definition other (t : Z) (l : label) : bool :=
  match l with
  | StartTrace x | EndTrace x | OpenPrompt x | Take x => negb (Z.eqb x t)
  | Send _ | Relay => true
  end.

(** t is blocked at prompt p with an empty queue *)
Definition blocked_at (s : state) (t p : Z) : state :=
  mkSt (s_in s) (upd (s_map s) t (Some [])) (upd (s_open s) t (Some p)) (s_ctr s) (s_nsent s).

Lemma Rel_blocked s t p : s_map s t <> None -> Rel t s (blocked_at s t p).
Proof.
  intros H. constructor; simpl; auto.
  - intros x Hx. unfold upd. destruct (Z.eqb_spec x t); congruence.
  - intros x Hx. unfold upd. destruct (Z.eqb_spec x t); congruence.
  - unfold upd. rewrite Z.eqb_refl. split; intros; congruence.
Qed.

Lemma indep_step t s1 s2 l : Rel t s1 s2 -> other t l = true ->
  snd (step s1 l) = snd (step s2 l) /\ Rel t (fst (step s1 l)) (fst (step s2 l)).
Proof.
  intros R Ho. destruct R. destruct l as [c| |x|x|x|x]; simpl in *.
  - rewrite r_nsent0. split; [reflexivity|]. constructor; simpl; auto; congruence.
  - rewrite <- r_in0. destruct (s_in s1) as [|[i c] r] eqn:Ein; simpl.
    + split; [reflexivity|]. constructor; simpl; auto; try congruence.
    + destruct (Z.eq_dec (c_trace c) t) as [E|E].
      * rewrite E. destruct (s_map s1 t) as [q1|] eqn:E1; destruct (s_map s2 t) as [q2|] eqn:E2; simpl.
        -- split; [reflexivity|]. constructor; simpl; auto; try congruence.
           ++ intros y Hy. unfold upd. destruct (Z.eqb_spec y t); [congruence|auto].
           ++ unfold upd. rewrite Z.eqb_refl. split; intros; congruence.
        -- exfalso. assert (Some q1 = None) by (apply r_live0; reflexivity). discriminate.
        -- exfalso. assert (Some q2 = None) by (apply r_live0; reflexivity). discriminate.
        -- split; [reflexivity|]. constructor; simpl; auto; try congruence; try (split; intros; assumption).
      * rewrite <- (r_map0 _ E). destruct (s_map s1 (c_trace c)) as [q|]; simpl.
        -- split; [reflexivity|]. constructor; simpl; auto; try congruence.
           ++ intros y Hy. unfold upd. destruct (Z.eqb_spec y (c_trace c)); auto.
           ++ unfold upd. destruct (Z.eqb_spec t (c_trace c)); [congruence|assumption].
        -- split; [reflexivity|]. constructor; simpl; auto; try congruence.
  - destruct (Z.eqb_spec x t); [discriminate|]. rewrite <- (r_map0 _ n).
    destruct (s_map s1 x); simpl; (split; [reflexivity|]); constructor; simpl; auto; try congruence.
    + intros y Hy. unfold upd. destruct (Z.eqb_spec y x); auto.
    + unfold upd. destruct (Z.eqb_spec t x); [congruence|assumption].
  - destruct (Z.eqb_spec x t); [discriminate|]. rewrite <- (r_map0 _ n), <- (r_open0 _ n).
    destruct (s_map s1 x); [destruct (s_open s1 x)|]; simpl; (split; [reflexivity|]); constructor; simpl; auto; try congruence.
    + intros y Hy. unfold upd. destruct (Z.eqb_spec y x); auto.
    + unfold upd. destruct (Z.eqb_spec t x); [congruence|assumption].
  - destruct (Z.eqb_spec x t); [discriminate|]. rewrite <- (r_map0 _ n), <- (r_open0 _ n), <- r_ctr0.
    destruct (s_map s1 x); [destruct (s_open s1 x)|]; simpl; (split; [reflexivity|]); constructor; simpl; auto; try congruence.
    intros y Hy. unfold upd. destruct (Z.eqb_spec y x); auto.
  - destruct (Z.eqb_spec x t); [discriminate|]. rewrite <- (r_map0 _ n), <- (r_open0 _ n).
    destruct (s_open s1 x) as [p|]; [|simpl; split; [reflexivity|constructor; auto; congruence]].
    destruct (s_map s1 x) as [[|[i c] r]|]; try (simpl; split; [reflexivity|constructor; auto; congruence]).
    destruct (negb (c_trace c =? x)); [|destruct (c_prompt c =? p)]; simpl; (split; [reflexivity|]);
      constructor; simpl; auto; try congruence;
      try (intros y Hy; unfold upd; destruct (Z.eqb_spec y x); auto);
      try (unfold upd; destruct (Z.eqb_spec t x); [congruence|assumption]).
Qed.

Theorem indep_run : forall t ls s1 s2,
  Rel t s1 s2 -> Forall (fun l => other t l = true) ls ->
  map snd (trace_from s1 ls) = map snd (trace_from s2 ls).
Proof.
  induction ls as [|l ls IH]; intros s1 s2 R F; [reflexivity|].
  inversion F; subst. destruct (indep_step _ _ _ _ R H1) as [Ho R']. simpl. rewrite Ho. f_equal. apply IH; assumption.
Qed.

(** whatever the other traces are doing (blocked or not), a trace waiting at
    its prompt is answered: send, relay, take -> executed *)
Theorem answer_is_delivered : forall s t p x,
  s_open s t = Some p -> s_map s t = Some [] -> s_in s = [] ->
  map snd (trace_from s [Send (mkCmd t p x); Relay; Take t]) =
  [OSent (s_nsent s); ORelayed (s_nsent s); OExec p (s_nsent s) (mkCmd t p x)].
Proof.
  intros s t p x Ho Hm Hi. simpl. rewrite Hi. simpl. rewrite Hm. simpl.
  unfold upd at 1. rewrite Z.eqb_refl. rewrite Ho.
  unfold upd. rewrite Z.eqb_refl. simpl. rewrite !Z.eqb_refl. simpl. reflexivity.
Qed.
