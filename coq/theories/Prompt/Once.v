(** Exactly-once delivery and the fate of decoys, derived from the invariant. *)
From NL Require Import Prompt.Model Prompt.Hist Prompt.Inv.
Open Scope Z_scope.

Lemma take_exec_inv s t p i c :
  snd (step s (Take t)) = OExec p i c ->
  s_open s t = Some p /\ c_prompt c = p /\ exists r, s_map s t = Some ((i, c) :: r).
Proof.
  simpl. destruct (s_open s t) as [p0|]; [|discriminate].
  destruct (s_map s t) as [[|[i0 c0] r]|]; try discriminate.
  destruct (negb (c_trace c0 =? t)); [discriminate|].
  destruct (Z.eqb_spec (c_prompt c0) p0); [|discriminate].
  simpl. intros H. inversion H; subst. repeat split; eauto.
Qed.

Lemma send_out_inv s c i : snd (step s (Send c)) = OSent i -> i = s_nsent s.
Proof. simpl. intros H. inversion H. reflexivity. Qed.

(** the command that closes prompt (t, p) is a sent command carrying exactly
    (t, p); it was sent and had reached t's queue before, and (t, p) is the open
    prompt of t at that moment *)
Theorem exec_is_addressed : forall ls pre t p i c post,
  trace ls = pre ++ (Take t, OExec p i c) :: post ->
  nth_error (sends (trace ls)) i = Some c /\ nth_error (sends pre) i = Some c /\
  c_trace c = t /\ c_prompt c = p /\ open_in pre t = Some p /\ In i (relayed pre).
Proof.
  intros ls pre t p i c post H.
  destruct (trace_split _ _ _ _ _ _ H) as (l1 & l2 & -> & -> & Ho & _).
  symmetry in Ho. apply take_exec_inv in Ho. destruct Ho as (Hop & Hp & r & Hm).
  pose proof (Inv_reach l1) as I. fold (trace l1). fold (final l1) in Hop, Hm.
  destruct (i_q _ _ I _ _ i c Hm (or_introl eq_refl)) as (A & B & C' & _).
  repeat split; auto.
  - rewrite H. fold (trace l1). rewrite sends_app. apply nth_error_app_some. assumption.
  - rewrite (i_open _ _ I). assumption.
Qed.

(** no instance is executed twice; no prompt is closed twice *)
Theorem exec_once : forall ls, NoDup (exec_ids (trace ls)) /\ NoDup (exec_prompts (trace ls)).
Proof. intros ls. pose proof (Inv_reach ls) as I. split; [apply (i_exec_ids _ _ I)|apply (i_exec_prompts _ _ I)]. Qed.

Lemma in_execs_split : forall tr t p i c, In (t, p, i, c) (execs tr) ->
  exists pre post, tr = pre ++ (Take t, OExec p i c) :: post.
Proof.
  induction tr as [|[l o] tr IH]; simpl; intros; [contradiction|].
  assert (Hrec : In (t, p, i, c) (execs tr) -> exists pre post, (l, o) :: tr = pre ++ (Take t, OExec p i c) :: post).
  { intros Hin. destruct (IH _ _ _ _ Hin) as (pre & post & ->). exists ((l, o) :: pre), post. reflexivity. }
  destruct l; auto. destruct o; auto.
  destruct H as [H|H]; auto. inversion H; subst. exists [], tr. reflexivity.
Qed.

Lemma in_exec_ids : forall tr i, In i (exec_ids tr) -> exists t p c, In (t, p, i, c) (execs tr).
Proof.
  intros tr i H. unfold exec_ids in H. apply in_map_iff in H. destruct H as ([[[t p] i'] c] & E & Hin).
  simpl in E. subst. eauto.
Qed.

(** an executed instance was addressed to a prompt that its own trace opened *)
Theorem executed_opened : forall ls i c,
  nth_error (sends (trace ls)) i = Some c -> In i (exec_ids (trace ls)) ->
  In (c_trace c, c_prompt c) (opens (trace ls)).
Proof.
  intros ls i c Hn Hin. apply in_exec_ids in Hin. destruct Hin as (t & p & c' & Hin).
  destruct (i_execs _ _ (Inv_reach ls) _ _ _ _ Hin) as (A & B & C' & _ & E). congruence.
Qed.

(** PARTIAL form of "decoys are discarded": classification at and after the
    ARRIVAL in the trace's queue.  Added hypothesis w.r.t. the property text:
    the addressed prompt is not open at any moment from the arrival on (the
    property text classifies at the moment of sending). *)
Theorem discarded_if_never_open_after_arrival : forall ls i c,
  nth_error (sends (trace ls)) i = Some c ->
  (forall pre post, trace ls = pre ++ post -> In i (relayed pre) ->
                    open_in pre (c_trace c) <> Some (c_prompt c)) ->
  ~ In i (exec_ids (trace ls)).
Proof.
  intros ls i c Hn Hnever Hin. apply in_exec_ids in Hin. destruct Hin as (t & p & c' & Hin).
  apply in_execs_split in Hin. destruct Hin as (pre & post & Htr).
  destruct (exec_is_addressed _ _ _ _ _ _ _ Htr) as (A & _ & B & C' & D & E).
  assert (c' = c) by congruence. subst c'. subst t p.
  exact (Hnever pre _ Htr E D).
Qed.

Lemma nodup_snd_inj {A B} (l : list (A * B)) a b p :
  NoDup (map snd l) -> In (a, p) l -> In (b, p) l -> a = b.
Proof.
  induction l as [|[x y] l IH]; simpl; intros Hnd Ha Hb; [contradiction|].
  inversion Hnd; subst.
  destruct Ha as [Ha|Ha]; destruct Hb as [Hb|Hb].
  - congruence.
  - inversion Ha; subst. exfalso. apply H1. apply in_map_iff. exists (b, p). auto.
  - inversion Hb; subst. exfalso. apply H1. apply in_map_iff. exists (a, p). auto.
  - eauto.
Qed.

(** another trace's prompt (whenever that trace opens it) *)
Theorem other_trace_discarded : forall ls i c t',
  nth_error (sends (trace ls)) i = Some c ->
  In (t', c_prompt c) (opens (trace ls)) -> t' <> c_trace c ->
  ~ In i (exec_ids (trace ls)).
Proof.
  intros ls i c t' Hn Ho Hne Hin. apply (executed_opened _ _ _ Hn) in Hin.
  apply Hne. eapply nodup_snd_inj; eauto. apply (i_opens_nodup _ _ (Inv_reach ls)).
Qed.

(** a prompt that never exists (unknown trace, number never issued to it) *)
Theorem nonexistent_discarded : forall ls i c,
  nth_error (sends (trace ls)) i = Some c ->
  ~ In (c_trace c, c_prompt c) (opens (trace ls)) ->
  ~ In i (exec_ids (trace ls)).
Proof. intros ls i c Hn Ho Hin. apply Ho. eapply executed_opened; eauto. Qed.

(** an already answered prompt *)
Theorem stale_discarded : forall ls pre c i post,
  trace ls = pre ++ (Send c, OSent i) :: post ->
  In (c_prompt c) (exec_prompts pre) ->
  ~ In i (exec_ids (trace ls)).
Proof.
  intros ls pre c i post H Hst Hin.
  destruct (trace_split _ _ _ _ _ _ H) as (l1 & l2 & Hls & Hpre & Ho & _).
  symmetry in Ho. apply send_out_inv in Ho. fold (final l1) in Ho. fold (trace l1) in Hpre.
  pose proof (Inv_reach l1) as I1. pose proof (Inv_reach ls) as I.
  assert (Hi : i = length (sends pre)) by (rewrite Ho, Hpre; apply (i_nsent _ _ I1)).
  assert (Hn : nth_error (sends (trace ls)) i = Some c).
  { rewrite H, sends_app. simpl. rewrite nth_error_app2 by lia. rewrite Hi, Nat.sub_diag. reflexivity. }
  apply in_exec_ids in Hin. destruct Hin as (t & p & c' & Hin).
  destruct (i_execs _ _ I _ _ _ _ Hin) as (A & B & C' & _).
  assert (c' = c) by congruence. subst c'.
  rewrite H, execs_app in Hin. simpl in Hin. apply in_app_iff in Hin. destruct Hin as [Hin|Hin].
  - rewrite Hpre in Hin. destruct (i_execs _ _ I1 _ _ _ _ Hin) as (A' & _).
    assert (i < length (sends (trace l1)))%nat by (apply nth_error_Some; congruence).
    rewrite <- Hpre in H0. lia.
  - pose proof (i_exec_prompts _ _ I) as Hnd. rewrite H, exec_prompts_app in Hnd. simpl in Hnd.
    assert (Hp2 : In (c_prompt c) (exec_prompts post)).
    { unfold exec_prompts. apply in_map_iff. exists (t, p, i, c). split; auto. }
    clear - Hnd Hst Hp2.
    induction (exec_prompts pre) as [|x l IH]; simpl in *; [contradiction|].
    inversion Hnd; subst. destruct Hst as [->|Hst]; auto.
    apply H1. apply in_app_iff. right. exact Hp2.
Qed.

(** the assertion `pdb_command.trace_no == trace_no` never fails *)
Theorem no_assertion_failure : forall ls l i, ~ In (l, OAssert i) (trace ls).
Proof. intros ls. apply (i_no_assert _ _ (Inv_reach ls)). Qed.

From NL Require Import Prompt.Spec.

Lemma arrival_check_sound tr i c : arrival_check tr i c = true -> decoy_after_arrival tr i c.
Proof.
  intros H pre post Htr Hin Ho. unfold arrival_check in H. rewrite forallb_forall in H.
  assert (Hp : pre = firstn (length pre) tr).
  { rewrite Htr. rewrite firstn_app, Nat.sub_diag, firstn_all. simpl. rewrite app_nil_r. reflexivity. }
  specialize (H (length pre)). rewrite <- Hp in H. simpl in H.
  assert (Hs : In (length pre) (seq 0 (S (length tr)))).
  { apply in_seq. rewrite Htr, app_length. lia. }
  apply H in Hs. rewrite Ho, Z.eqb_refl in Hs. simpl in Hs.
  assert (He : existsb (Nat.eqb i) (relayed pre) = true).
  { apply existsb_exists. exists i. split; [assumption|apply Nat.eqb_refl]. }
  rewrite He in Hs. discriminate.
Qed.
