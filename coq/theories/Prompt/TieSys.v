(** TIE of the composed model (Prompt/System.v: child + event channel + main-process filter) and
    of the main-process guard to the code of /repo.

    Gen/PromptFuns.v holds, besides the child's functions (Prompt/Tie.v), the statement trees of
    Nextline.send_pdb_command, Imp.send_command, CommandSender.send_command,
    SendCommand._send_command, the cases of OnEvent.on_event_in_process and the statements of
    RunSession.run that touch the filter, REGENERATED from the source at every check.  This file
    drives the interpreter (Prompt/Interp.v) by the labels of Prompt/System.v and proves

    * [ssim]: for EVERY list of system labels the interpreter of the regenerated code and
      Prompt/System.v produce the same output at every label and end in related states (same
      event queue, same open_prompts, child states related by the simulation of Prompt/Tie.v);
      hence the theorems of Prompt/SysProofs.v hold of the regenerated code ([tie_system_*]);
    * [main_*]: the main process over SEVERAL runs (labels: an event is handled, a run starts,
      an API call): send_command forwards a command iff its (trace, prompt) pair is in
      context.open_prompts, and that set holds exactly the prompts whose OnStartPrompt was handled
      after the start of the CURRENT run and whose OnEndPrompt has not been handled since.

    What a label means for the code:
      SApi c    Nextline.send_pdb_command(command=c_text, prompt_no=c_prompt, trace_no=c_trace)
                (arguments bound BY NAME to the regenerated parameter list) runs to its end through
                Imp.send_command -> CommandSender.send_command [-> SendCommand._send_command]
      SMain     the case of on_event_in_process for the class of the next event of queue_out runs to
                its end (its hook awaited: the hooks do not touch open_prompts -- translator check:
                open_prompts is used nowhere else in /repo/nextline)
      SChild l  the child's label (Prompt/Tie.v); OnStartPrompt / OnEndPrompt are put on queue_out
      MRunStart the statements of RunSession.run that touch the filter, in source order.
    Modelled, not verified: queue_out is FIFO (C10), pluggy, the mp queue between the processes. *)
From NL Require Import Prompt.Interp Prompt.Hist Prompt.Tie.
From NL Require Prompt.Spec Prompt.Inv Prompt.Once Prompt.Deliver Prompt.SysProofs.
From Coq Require Import Lia.
Open Scope Z_scope.

(** ================================================================== the threads of the main process *)
Definition api_arg (n : string) (c : cmd) : option val :=
  if String.eqb n "command" then Some (VStr (c_text c))
  else if String.eqb n "prompt_no" then Some (VInt (c_prompt c))
  else if String.eqb n "trace_no" then Some (VInt (c_trace c))
  else None.

Fixpoint api_args (names : list string) (c : cmd) : option (list val) :=
  match names with
  | [] => Some []
  | n :: r => match api_arg n c, api_args r c with Some v, Some vs => Some (v :: vs) | _, _ => None end
  end.

Definition api_thread (c : cmd) : option thread :=
  match api_args api_param_names c with
  | Some vs => call 0 api_params api_body vs
  | None => None
  end.

Definition class_of (e : mev) : string :=
  match e with MStart _ _ => "OnStartPrompt" | MEnd _ _ => "OnEndPrompt" end.

Fixpoint find_case (name : string) (cases : list (string * stmt)) : option stmt :=
  match cases with
  | [] => None
  | (n, b) :: r => if String.eqb n name || String.eqb n "_" then Some b else find_case name r
  end.

Definition event_thread (e : mev) : option thread :=
  match find_case (class_of e) event_cases with
  | Some b => call 0 event_params b [VEvent e]
  | None => None
  end.

Definition run_start_thread : thread := mkT 0 empty (map KS run_tracked).

(** ================================================================== what they compute *)
Lemma api_forward : forall sh c th, api_thread c = Some th -> h_bound sh = true -> h_sentinel sh = false ->
  mem (c_trace c, c_prompt c) (h_open sh) = true ->
  resume FUEL sh th = RDone (hset_in sh (h_in sh ++ [(h_nsent sh, c)]) (S (h_nsent sh))) VNone [ISent (h_nsent sh)].
Proof. intros sh [t p x] th H Hb Hs E. inversion H; subst. cbn [c_trace c_prompt] in E. exec ltac:(rewrite ?E, ?Hb, ?Hs). Qed.

Lemma api_drop : forall sh c th, api_thread c = Some th -> h_bound sh = true ->
  mem (c_trace c, c_prompt c) (h_open sh) = false ->
  resume FUEL sh th = RDone sh VNone [].
Proof. intros sh [t p x] th H Hb E. inversion H; subst. cbn [c_trace c_prompt] in E. exec ltac:(rewrite ?E, ?Hb). Qed.

(** before the first run context.send_command is None: `assert context.send_command` raises *)
Lemma api_unbound : forall sh c th, api_thread c = Some th -> h_bound sh = false ->
  resume FUEL sh th = RDied sh XAssertion [].
Proof. intros sh [t p x] th H Hb. inversion H; subst. exec ltac:(rewrite ?Hb). Qed.

Lemma see_start : forall sh t n th, event_thread (MStart t n) = Some th ->
  resume FUEL sh th = RDone (hset_opens sh ((t, n) :: h_open sh)) VNone [IHook "on_start_prompt"].
Proof. intros sh t n th H. inversion H; subst. exec idtac. Qed.

Lemma see_end : forall sh t n th, event_thread (MEnd t n) = Some th ->
  resume FUEL sh th = RDone (hset_opens sh (remove_pair (t, n) (h_open sh))) VNone [IHook "on_end_prompt"].
Proof. intros sh t n th H. inversion H; subst. exec idtac. Qed.

(** RunSession.run up to and including the spawn: a new queue_in, the sender bound to it, the set emptied *)
Lemma run_start_exec : forall sh,
  resume FUEL sh run_start_thread =
  RDone (hset_opens (hset_bound (hset_sentinel (hset_in sh [] (h_nsent sh)) false) true) []) VNone [].
Proof. intros sh. unfold run_start_thread. cbn [map run_tracked]. exec idtac. Qed.

(** the set is emptied BEFORE the child of the new run exists (no event of the new run can have been handled) *)
Fixpoint before_spawn (l : list stmt) : list stmt :=
  match l with [] => [] | SSpawn :: _ => [] | x :: r => x :: before_spawn r end.
Lemma cleared_before_spawn :
  existsb (fun s => match s with SSetClear (EAttr AOpenPrompts) => true | _ => false end) (before_spawn run_tracked) = true /\
  existsb (fun s => match s with SSpawn => true | _ => false end) run_tracked = true.
Proof. split; reflexivity. Qed.

(** the queue the main process puts commands on is the one the child's relay thread reads *)
Lemma queue_in_wiring : session_in_pos = set_queues_in_pos.
Proof. reflexivity. Qed.

(** ================================================================== the composed system *)
Record sist := mkSI { si_ch : ist; si_evq : list mev }.
(** the composed system starts inside a run: RunSession.run has been entered (the sender is bound) *)
Definition siinit : sist :=
  mkSI (set_sh iinit (match resume FUEL (i_sh iinit) run_start_thread with RDone sh' _ _ => sh' | _ => i_sh iinit end)) [].

Definition isstep (x : sist) (l : slabel) : sist * option sout :=
  let s := si_ch x in
  match l with
  | SChild (Send _) => (x, Some SNotALabel)
  | SChild l' =>
      (mkSI (fst (istep s l')) (si_evq x ++ match snd (istep s l') with Some o => emitted l' o | None => [] end),
       option_map SOut (snd (istep s l')))
  | SMain =>
      match si_evq x with
      | [] => (x, Some SIdle)
      | e :: r =>
          match event_thread e with
          | Some th =>
              match resume FUEL (i_sh s) th with
              | RDone sh' _ _ => (mkSI (set_sh s sh') r, Some (SSaw e))
              | _ => (x, None)
              end
          | None => (x, None)
          end
      end
  | SApi c =>
      match api_thread c with
      | Some th =>
          match resume FUEL (i_sh s) th with
          | RDone sh' _ [ISent i] => (mkSI (set_sh s sh') (si_evq x), Some (SForwarded i))
          | RDone sh' _ [] => (mkSI (set_sh s sh') (si_evq x), Some SDropped)
          | _ => (x, None)
          end
      | None => (x, None)
      end
  end.

Fixpoint istrace_from (x : sist) (ls : list slabel) : list (slabel * option sout) :=
  match ls with [] => [] | l :: r => (l, snd (isstep x l)) :: istrace_from (fst (isstep x l)) r end.
Fixpoint isexec_from (x : sist) (ls : list slabel) : sist :=
  match ls with [] => x | l :: r => isexec_from (fst (isstep x l)) r end.
Definition istrace (ls : list slabel) := istrace_from siinit ls.
Definition isfinal (ls : list slabel) := isexec_from siinit ls.

Definition RS (x : sist) (y : sstate) : Prop :=
  R (si_ch x) (ch y) /\ si_evq x = evq y /\ h_open (i_sh (si_ch x)) = mopen y /\ h_bound (i_sh (si_ch x)) = true.

(** the child-level relation does not look at open_prompts *)
Lemma R_opens : forall s m o, R s m -> R (set_sh s (hset_opens (i_sh s) o)) m.
Proof.
  intros [sh rel thr live] m o [Hin Hns Hc Hk Hsn Hm Hf Hi Hl Ho Hrk Hrf]. constructor; cbn in *; auto.
Qed.

Lemma send_state : forall s c, h_sentinel (i_sh s) = false -> fst (istep s (Send c)) = set_sh s (hset_in (i_sh s) (h_in (i_sh s) ++ [(h_nsent (i_sh s), c)]) (S (h_nsent (i_sh s)))).
Proof.
  intros s c Hs. unfold istep.
  destruct (call 0 send_command_params send_command_body [VCmd 0 c]) as [th | ] eqn:Ec; [ | cbv in Ec; discriminate Ec].
  rewrite (send_exec (i_sh s) c th Ec Hs). reflexivity.
Qed.

Definition ssome (e : slabel * sout) : slabel * option sout := (fst e, Some (snd e)).

Lemma sstep_sim : forall x y l, RS x y ->
  RS (fst (isstep x l)) (fst (sstep y l)) /\ snd (isstep x l) = Some (snd (sstep y l)).
Proof.
  intros [s q] [m q' mo] l (HR & Hq & Ho & Hb). cbn in HR, Hq, Ho, Hb. subst q'.
  pose proof (r_sentinel _ _ HR) as Hsn.
  destruct l as [l' | | c].
  - (* the child *)
    assert (X : forall l0, (forall c, l0 <> Send c) ->
                RS (mkSI (fst (istep s l0)) (q ++ match snd (istep s l0) with Some o => emitted l0 o | None => [] end))
                   (mkS (fst (step m l0)) (q ++ emitted l0 (snd (step m l0))) mo) /\
                option_map SOut (snd (istep s l0)) = Some (SOut (snd (step m l0)))).
    { intros l0 _. destruct (step_sim s m l0 HR) as (A & B & C & D). rewrite B. cbn. split; [ | reflexivity].
      split; [exact A | ]. split; [reflexivity | ]. cbn. rewrite C, D. split; assumption. }
    destruct l'; cbn [isstep sstep si_ch si_evq ch evq mopen];
      try (apply X; intros c0; discriminate).
    split; [ | reflexivity]. split; [exact HR | ]. split; [reflexivity | split; assumption].
  - (* the main process handles an event *)
    cbn [isstep sstep si_ch si_evq ch evq mopen].
    destruct q as [ | e r].
    + split; [ | reflexivity]. split; [exact HR | ]. split; [reflexivity | split; assumption].
    + destruct (event_thread e) as [th | ] eqn:Et; [ | destruct e; cbv in Et; discriminate Et].
      destruct e as [t n | t n].
      * rewrite (see_start (i_sh s) t n th Et). cbn. split; [ | reflexivity].
        split; [apply R_opens; exact HR | ]. split; [reflexivity | ]. destruct s; cbn in *. rewrite Ho. split; [reflexivity | assumption].
      * rewrite (see_end (i_sh s) t n th Et). cbn. split; [ | reflexivity].
        split; [apply R_opens; exact HR | ]. split; [reflexivity | ]. destruct s; cbn in *. rewrite Ho. split; [reflexivity | assumption].
  - (* an API call *)
    cbn [isstep sstep si_ch si_evq ch evq mopen].
    destruct (api_thread c) as [th | ] eqn:Et; [ | destruct c; cbv in Et; discriminate Et].
    rewrite <- Ho. destruct (mem (c_trace c, c_prompt c) (h_open (i_sh s))) eqn:Em.
    + rewrite (api_forward (i_sh s) c th Et Hb Hsn Em). cbn [fst snd].
      split; [ | rewrite (r_nsent _ _ HR); reflexivity].
      destruct (step_sim s m (Send c) HR) as (A & _ & C & D). rewrite (send_state s c Hsn) in A, C, D.
      split; [exact A | ]. split; [reflexivity | ]. cbn [si_ch mopen]. rewrite C, D. split; [reflexivity | assumption].
    + rewrite (api_drop (i_sh s) c th Et Hb Em). cbn [fst snd]. split; [ | reflexivity].
      split; [ | split; [reflexivity | split]]; destruct s; cbn; auto.
Qed.

Lemma ssim_from : forall ls x y, RS x y ->
  istrace_from x ls = map ssome (strace_from y ls) /\ RS (isexec_from x ls) (sexec_from y ls).
Proof.
  induction ls as [ | l ls IH]; intros x y H; simpl.
  - split; [reflexivity | assumption].
  - destruct (sstep_sim x y l H) as [H1 H2]. destruct (IH _ _ H1) as [A B]. split; [ | assumption].
    rewrite A. unfold ssome at 1. simpl. rewrite H2. reflexivity.
Qed.

Lemma RS_init : RS siinit sinit.
Proof.
  unfold siinit. rewrite run_start_exec. split; [ | repeat split].
  constructor; try reflexivity; intros; try discriminate.
Qed.

(** THE TIE at system level *)
Theorem ssim : forall ls, istrace ls = map ssome (strace ls) /\ RS (isfinal ls) (sfinal ls).
Proof. intros ls. apply ssim_from. apply RS_init. Qed.

Definition ishist (ls : list slabel) : list sev :=
  flat_map (fun e => match snd e with Some o => [(fst e, o)] | None => [] end) (istrace ls).

Theorem tie_system_same_history : forall ls, ishist ls = strace ls /\ forall e, In e (istrace ls) -> snd e <> None.
Proof.
  intros ls. destruct (ssim ls) as [A _]. unfold ishist. rewrite A. split.
  - generalize (strace ls). induction l as [ | [a b] l IH]; simpl; [reflexivity | rewrite IH; reflexivity].
  - intros e Hin. apply in_map_iff in Hin. destruct Hin as (x & <- & _). discriminate.
Qed.

Theorem tie_system_same_state : forall ls,
  si_evq (isfinal ls) = evq (sfinal ls) /\ h_open (i_sh (si_ch (isfinal ls))) = mopen (sfinal ls) /\
  h_in (i_sh (si_ch (isfinal ls))) = s_in (ch (sfinal ls)) /\
  forall t, iqueue (si_ch (isfinal ls)) t = s_map (ch (sfinal ls)) t.
Proof.
  intros ls. destruct (ssim ls) as [_ (HR & Hq & Ho & _)]. repeat split; auto.
  - apply (r_in _ _ HR).
  - intros t. symmetry. apply (r_map _ _ HR).
Qed.

(** ---- the theorems of Prompt/SysProofs.v about the regenerated code *)
Theorem tie_system_decoys_discarded : forall sls pre c o post,
  ishist sls = pre ++ (SApi c, o) :: post ->
  forall l1, pre = ishist l1 ->
  open_in (ctrace l1) (c_trace c) <> Some (c_prompt c) ->
  o = SDropped \/ exists i, o = SForwarded i /\ ~ In i (exec_ids (ctrace sls)).
Proof.
  intros sls pre c o post E l1 E1. destruct (tie_system_same_history sls) as [A _]. destruct (tie_system_same_history l1) as [A1 _].
  rewrite A in E. rewrite A1 in E1. exact (SysProofs.system_decoys_discarded sls pre c o post E l1 E1).
Qed.

Theorem tie_system_forwarded_seen_open : forall sls pre c i post,
  ishist sls = pre ++ (SApi c, SForwarded i) :: post -> In (c_trace c, c_prompt c) (seen_open pre).
Proof.
  intros sls pre c i post E. destruct (tie_system_same_history sls) as [A _]. rewrite A in E.
  exact (SysProofs.forwarded_seen_open sls pre c i post E).
Qed.

(** ================================================================== the main process over several runs *)
Inductive mlabel :=
| MEv (e : mev)        (* on_event_in_process handles an OnStartPrompt / OnEndPrompt *)
| MRunStart            (* RunSession.run is entered (a new run of the same Nextline object) *)
| MApi (c : cmd).      (* send_pdb_command *)

Inductive mout := MSaw | MStarted | MForwarded (i : nat) | MDropped | MRaised.   (* MRaised: AssertionError, no run has started yet *)

Definition mmstep (sh : shared) (l : mlabel) : shared * option mout :=
  match l with
  | MEv e =>
      match event_thread e with
      | Some th => match resume FUEL sh th with RDone sh' _ _ => (sh', Some MSaw) | _ => (sh, None) end
      | None => (sh, None)
      end
  | MRunStart => match resume FUEL sh run_start_thread with RDone sh' _ _ => (sh', Some MStarted) | _ => (sh, None) end
  | MApi c =>
      match api_thread c with
      | Some th =>
          match resume FUEL sh th with
          | RDone sh' _ [ISent i] => (sh', Some (MForwarded i))
          | RDone sh' _ [] => (sh', Some MDropped)
          | RDied sh' XAssertion [] => (sh', Some MRaised)
          | _ => (sh, None)
          end
      | None => (sh, None)
      end
  end.

Definition mmfinal (ls : list mlabel) : shared := fold_left (fun sh l => fst (mmstep sh l)) ls init_shared.

(** the set as a function of the history: emptied at a run start, +pair at its OnStartPrompt, -pair at its OnEndPrompt *)
Definition spec_step (m : list (Z * Z)) (l : mlabel) : list (Z * Z) :=
  match l with MEv e => see m e | MRunStart => [] | MApi _ => m end.
Definition spec_open (ls : list mlabel) : list (Z * Z) := fold_left spec_step ls [].

Definition is_run_start (l : mlabel) : bool := match l with MRunStart => true | _ => false end.

(** main-process invariant: no sentinel on the current queue_in; the sender is bound iff a run has started *)
Definition MInv (sh : shared) (started : bool) : Prop := h_sentinel sh = false /\ h_bound sh = started.

Lemma mmstep_open : forall sh l b, MInv sh b ->
  h_open (fst (mmstep sh l)) = spec_step (h_open sh) l /\ snd (mmstep sh l) <> None /\
  MInv (fst (mmstep sh l)) (b || is_run_start l).
Proof.
  intros sh l b [Hs Hb]. destruct l as [e | | c]; unfold mmstep.
  - destruct (event_thread e) as [th | ] eqn:Et; [ | destruct e; cbv in Et; discriminate Et].
    destruct e as [t n | t n].
    + rewrite (see_start sh t n th Et). rewrite orb_false_r. repeat split; auto; discriminate.
    + rewrite (see_end sh t n th Et). rewrite orb_false_r. repeat split; auto; discriminate.
  - rewrite run_start_exec. rewrite orb_true_r. repeat split; discriminate.
  - destruct (api_thread c) as [th | ] eqn:Et; [ | destruct c; cbv in Et; discriminate Et].
    rewrite orb_false_r. destruct b.
    + destruct (mem (c_trace c, c_prompt c) (h_open sh)) eqn:Em.
      * rewrite (api_forward sh c th Et Hb Hs Em). repeat split; auto; discriminate.
      * rewrite (api_drop sh c th Et Hb Em). repeat split; auto; discriminate.
    + rewrite (api_unbound sh c th Et Hb). repeat split; auto; discriminate.
Qed.

Lemma fold_snoc {A B} (f : A -> B -> A) (l : list B) (x : B) (a : A) : fold_left f (l ++ [x]) a = f (fold_left f l a) x.
Proof. rewrite fold_left_app. reflexivity. Qed.

Theorem main_open_prompts : forall ls,
  h_open (mmfinal ls) = spec_open ls /\ MInv (mmfinal ls) (existsb is_run_start ls).
Proof.
  induction ls as [ | l ls IH] using rev_ind; [split; [reflexivity | split; reflexivity] | ].
  destruct IH as [IH1 IH2].
  unfold mmfinal, spec_open. rewrite !fold_snoc. fold (mmfinal ls). fold (spec_open ls).
  destruct (mmstep_open (mmfinal ls) l _ IH2) as (A & _ & C). rewrite A, IH1. split; [reflexivity | ].
  rewrite existsb_app. cbn [existsb]. rewrite orb_false_r. exact C.
Qed.

(** (3a) the guard: after ANY history of the main process in which a run has started,
    send_pdb_command puts the command on queue_in iff its (trace_no, prompt_no) pair is in the
    set; otherwise nothing is put.  (Hypothesis added by the hardening round: before the first
    run `assert context.send_command` raises -- [main_before_first_run_raises].) *)
Theorem main_forwards_iff_member : forall ls c, existsb is_run_start ls = true ->
  let sh := mmfinal ls in
  if mem (c_trace c, c_prompt c) (spec_open ls)
  then snd (mmstep sh (MApi c)) = Some (MForwarded (h_nsent sh)) /\ h_in (fst (mmstep sh (MApi c))) = h_in sh ++ [(h_nsent sh, c)]
  else snd (mmstep sh (MApi c)) = Some MDropped /\ fst (mmstep sh (MApi c)) = sh.
Proof.
  intros ls c Hst sh. destruct (main_open_prompts ls) as [Ho [Hs Hb]]. rewrite <- Ho. fold sh in Hs, Hb |- *. rewrite Hst in Hb.
  unfold mmstep.
  destruct (api_thread c) as [th | ] eqn:Et; [ | destruct c; cbv in Et; discriminate Et].
  destruct (mem (c_trace c, c_prompt c) (h_open sh)) eqn:Em.
  - rewrite (api_forward sh c th Et Hb Hs Em). split; reflexivity.
  - rewrite (api_drop sh c th Et Hb Em). split; reflexivity.
Qed.

Theorem main_before_first_run_raises : forall ls c, existsb is_run_start ls = false ->
  snd (mmstep (mmfinal ls) (MApi c)) = Some MRaised /\ fst (mmstep (mmfinal ls) (MApi c)) = mmfinal ls.
Proof.
  intros ls c Hst. destruct (main_open_prompts ls) as [_ [Hs Hb]]. rewrite Hst in Hb. unfold mmstep.
  destruct (api_thread c) as [th | ] eqn:Et; [ | destruct c; cbv in Et; discriminate Et].
  rewrite (api_unbound _ c th Et Hb). split; reflexivity.
Qed.

(** (3b) the set holds EXACTLY the prompts started and not ended in the CURRENT run *)
Definition started_not_ended (ls : list mlabel) (t p : Z) : Prop :=
  exists pre post, ls = pre ++ MEv (MStart t p) :: post /\ ~ In MRunStart post /\ ~ In (MEv (MEnd t p)) post.

Lemma mem_iff_in : forall x l, mem x l = true <-> In x l.
Proof.
  intros [a b] l. unfold mem. rewrite existsb_exists. split.
  - intros ([a' b'] & Hin & E). unfold pair_eqb in E. cbn in E. apply andb_true_iff in E. destruct E as [E1 E2].
    apply Z.eqb_eq in E1, E2. subst. exact Hin.
  - intros Hin. exists (a, b). split; [exact Hin | ]. unfold pair_eqb. cbn. rewrite !Z.eqb_refl. reflexivity.
Qed.

Lemma in_remove_pair_iff : forall x y l, In y (remove_pair x l) <-> In y l /\ y <> x.
Proof.
  intros [a b] [a' b'] l. unfold remove_pair. rewrite filter_In. unfold pair_eqb. cbn. split; intros [H1 H2]; split; auto.
  - intros E. inversion E; subst. rewrite !Z.eqb_refl in H2. discriminate.
  - destruct (Z.eqb_spec a a'); destruct (Z.eqb_spec b b'); cbn; auto. subst. exfalso. apply H2. reflexivity.
Qed.

Theorem spec_open_exact : forall ls t p, In (t, p) (spec_open ls) <-> started_not_ended ls t p.
Proof.
  induction ls as [ | l ls IH] using rev_ind; intros t p.
  - cbn. split; [tauto | ]. intros (pre & post & E & _). destruct pre; discriminate E.
  - unfold spec_open. rewrite fold_snoc. fold (spec_open ls). unfold started_not_ended. split.
    + intros Hin. destruct l as [[t' n' | t' n'] | | c]; cbn in Hin.
      * destruct Hin as [E | Hin].
        -- inversion E; subst. exists ls, []. split; [reflexivity | ]. split; intros [].
        -- apply IH in Hin. destruct Hin as (pre & post & E & N1 & N2). exists pre, (post ++ [MEv (MStart t' n')]).
           split; [rewrite E, <- app_assoc; reflexivity | ].
           split; intros H; apply in_app_or in H; destruct H as [H | [H | []]]; try discriminate H; auto.
      * apply in_remove_pair_iff in Hin. destruct Hin as [Hin Hne]. apply IH in Hin.
        destruct Hin as (pre & post & E & N1 & N2). exists pre, (post ++ [MEv (MEnd t' n')]).
        split; [rewrite E, <- app_assoc; reflexivity | ].
        split; intros H; apply in_app_or in H; destruct H as [H | [H | []]]; try discriminate H; auto.
        inversion H; subst. apply Hne. reflexivity.
      * destruct Hin.
      * apply IH in Hin. destruct Hin as (pre & post & E & N1 & N2). exists pre, (post ++ [MApi c]).
        split; [rewrite E, <- app_assoc; reflexivity | ].
        split; intros H; apply in_app_or in H; destruct H as [H | [H | []]]; try discriminate H; auto.
    + intros (pre & post & E & N1 & N2). symmetry in E. apply SysProofs.split_snoc in E.
      destruct E as [(-> & -> & <-) | (post' & -> & ->)].
      * cbn. left. reflexivity.
      * assert (Hls : In (t, p) (spec_open (pre ++ MEv (MStart t p) :: post'))).
        { apply IH. exists pre, post'. split; [reflexivity | ]. split; intros H; [apply N1 | apply N2]; apply in_or_app; left; exact H. }
        destruct l as [[t' n' | t' n'] | | c]; cbn.
        -- right. exact Hls.
        -- apply in_remove_pair_iff. split; [exact Hls | ]. intros E. inversion E; subst. apply N2. apply in_or_app. right. left. reflexivity.
        -- exfalso. apply N1. apply in_or_app. right. left. reflexivity.
        -- exact Hls.
Qed.

(** (3) together: a command is forwarded iff its prompt was started and has not ended in the current run *)
Theorem main_forwards_iff_open_in_current_run : forall ls c, existsb is_run_start ls = true ->
  (snd (mmstep (mmfinal ls) (MApi c)) = Some (MForwarded (h_nsent (mmfinal ls))) <-> started_not_ended ls (c_trace c) (c_prompt c)).
Proof.
  intros ls c Hst. rewrite <- spec_open_exact, <- mem_iff_in.
  pose proof (main_forwards_iff_member ls c Hst) as H. cbv zeta in H.
  destruct (mem (c_trace c, c_prompt c) (spec_open ls)); destruct H as [H1 H2]; rewrite H1; split; intros E; auto; discriminate E.
Qed.

(** a pair left over from a killed run does not survive the start of the next run *)
Corollary main_stale_pair_dropped : forall ls1 ls2 c,
  ~ In (MEv (MStart (c_trace c) (c_prompt c))) ls2 ->
  snd (mmstep (mmfinal (ls1 ++ MRunStart :: ls2)) (MApi c)) = Some MDropped.
Proof.
  intros ls1 ls2 c Hn.
  assert (Hst : existsb is_run_start (ls1 ++ MRunStart :: ls2) = true).
  { rewrite existsb_app. cbn. rewrite orb_true_r. reflexivity. }
  pose proof (main_forwards_iff_member (ls1 ++ MRunStart :: ls2) c Hst) as H. cbv zeta in H.
  destruct (mem (c_trace c, c_prompt c) (spec_open (ls1 ++ MRunStart :: ls2))) eqn:Em; [ | apply H].
  exfalso. apply mem_iff_in, spec_open_exact in Em. destruct Em as (pre & post & E & N1 & N2).
  (* the MStart lies in ls2, or MRunStart lies in post *)
  assert (X : In (MEv (MStart (c_trace c) (c_prompt c))) ls2 \/ In MRunStart post).
  { clear N2 Hn H Hst. revert pre E. induction ls1 as [ | a ls1 IHl]; intros pre E; cbn in E.
    - destruct pre as [ | b pre]; cbn in E; [discriminate E | ]. inversion E; subst. left. apply in_or_app. right. left. reflexivity.
    - destruct pre as [ | b pre]; cbn in E.
      + inversion E; subst. right. apply in_or_app. right. left. reflexivity.
      + inversion E; subst. eapply IHl. eassumption. }
  destruct X; contradiction.
Qed.

(** non-vacuity: prompt (1,4) open when run 1 is killed; in run 2 a command for (1,4) is dropped
    until prompt (1,4) of run 2 starts *)
Example main_example :
  map (fun ls => snd (mmstep (mmfinal ls) (MApi (mkCmd 1 4 7))))
    [[MRunStart; MEv (MStart 1 4)];
     [MRunStart; MEv (MStart 1 4); MRunStart];
     [MRunStart; MEv (MStart 1 4); MRunStart; MEv (MStart 1 3)];
     [MRunStart; MEv (MStart 1 4); MRunStart; MEv (MStart 1 3); MEv (MEnd 1 3); MEv (MStart 1 4)];
     [MRunStart; MEv (MStart 1 4); MEv (MEnd 1 4)]]
  = [Some (MForwarded 0); Some MDropped; Some MDropped; Some (MForwarded 0); Some MDropped].
Proof. vm_compute. reflexivity. Qed.

(** non-vacuity at system level: the example of Props/C07.v, run by the interpreter of the regenerated code *)
Definition tie_ex_system : list slabel :=
  [SChild (StartTrace 1); SChild (OpenPrompt 1); SMain; SApi (mkCmd 1 1 1); SChild Relay; SChild (Take 1); SMain;
   SChild (OpenPrompt 1); SMain; SApi (mkCmd 1 2 2); SApi (mkCmd 1 3 999);
   SChild Relay; SChild (Take 1); SChild Relay; SMain; SChild (OpenPrompt 1); SChild (Take 1); SMain;
   SApi (mkCmd 1 3 1); SChild Relay; SChild (Take 1)].

Example tie_system_example :
  map snd (istrace tie_ex_system) =
  map Some
  [SOut OStarted; SOut (OOpened 1); SSaw (MStart 1 1); SForwarded 0; SOut (ORelayed 0); SOut (OExec 1 0 (mkCmd 1 1 1)); SSaw (MEnd 1 1);
   SOut (OOpened 2); SSaw (MStart 1 2); SForwarded 1; SDropped;
   SOut (ORelayed 1); SOut (OExec 2 1 (mkCmd 1 2 2)); SOut OIdle; SSaw (MEnd 1 2); SOut (OOpened 3); SOut OBlocked; SSaw (MStart 1 3);
   SForwarded 2; SOut (ORelayed 2); SOut (OExec 3 2 (mkCmd 1 3 1))].
Proof. vm_compute. reflexivity. Qed.
