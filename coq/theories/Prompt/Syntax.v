(** Abstract syntax of the fragment of Python the command path (C07) consists of.
    Hand-written; the TERMS of these types are regenerated from the source at every check by
    translate/prompt_funs.py into Gen/PromptFuns.v, and Prompt/Tie.v interprets them.

    Sources
      nextline/spawned/plugin/plugins/pdb_/prompt.py   Prompt.init / on_start_trace / on_end_trace / prompt,
                                                       relay_commands (its inner fn, the submit), try_again_on_error
      nextline/spawned/plugin/plugins/pdb_/factory.py  PromptFunc._prompt_func, the counter; PdbInstanceFactory, Factory (wiring)
      nextline/spawned/plugin/plugins/repeat.py        Repeater.on_prompt (the generator that emits OnStartPrompt / OnEndPrompt)
      nextline/plugin/plugins/session/session.py       CommandSender.send_command, SendCommand._send_command,
                                                       RunSession.run (the statements that touch the filter)
      nextline/plugin/plugins/session/monitor.py       OnEvent.on_event_in_process (the cases)
      nextline/main.py, nextline/imp.py                send_pdb_command, Imp.send_command

    Statements the command path does not depend on (logging, typing, docstrings, asserts without
    a call) have no constructor: the translator drops them.  Local variables are alpha-normalised
    by the translator: "<function>.a<i>" for the i-th parameter (self not counted), "<function>.l<i>"
    for the i-th local in the order of first binding; the functions do not recurse, so one flat
    environment per thread is a faithful frame discipline.

    Definitions only; Coq stdlib only. *)
From Coq Require Export List ZArith Bool String.
Export ListNotations.

(** shared objects, however the function at hand reaches them (attribute of the plugin, closure
    variable bound to it by `with relay_commands(self._queue_in, self._queue_map)`, attribute of
    the main process' context) *)
Inductive attr :=
| AQueueIn            (* queue_in: main process -> child *)
| AQueueMap           (* Prompt._queue_map *)
| AOpenPrompts        (* context.open_prompts *)
| ASendCommand        (* context.send_command: None until RunSession.run binds it *)
| AQueueOut.          (* queue_out: child -> main process (Repeater._queue_out) *)

Inductive field := FTraceNo | FPromptNo | FCommand.

(** the functions that are called by name or passed as a value *)
Inductive fname :=
| FnTryAgain          (* try_again_on_error *)
| FnFn                (* relay_commands.fn *)
| FnPrompt            (* Prompt.prompt (through hook.hook.prompt, first result) *)
| FnSendCommand       (* SendCommand._send_command (context.send_command) *)
| FnSender            (* CommandSender.send_command (through ahook.send_command) *)
| FnImpSend.          (* Imp.send_command *)

(** generator functions used as context managers *)
Inductive gname :=
| GRelayCommands      (* relay_commands(queue_in, queue_map), @contextmanager *)
| GOnPrompt.          (* Repeater.on_prompt(prompt_no, text), entered through hook.with_.on_prompt *)

Inductive expr :=
| ENone
| EBool (b : bool)
| EVar (x : string)
| EAttr (a : attr)
| EFun (f : fname)                  (* a function as a value *)
| EField (e : expr) (f : field)     (* e.trace_no / e.prompt_no / e.command *)
| EWalrus (x : string) (e : expr)   (* (x := e) *)
| ETuple (a b : expr)               (* (a, b) *)
| EMkCmd (t p c : expr)             (* PdbCommand(trace_no=t, prompt_no=p, command=c) *)
| ENewDict                          (* {} *)
| ENewDefaultDictQueue              (* defaultdict(Queue) *)
| ENewQueue                         (* Queue() *)
| EGetItem (d k : expr)             (* d[k]: KeyError on a miss of a plain dict; a defaultdict creates *)
| EDictGet (d k : expr)             (* d.get(k): None on a miss *)
| EQueueGet (q : expr)              (* q.get(): BLOCKS while the queue is empty *)
| EEq (a b : expr) | ENe (a b : expr)       (* ==  != : by value *)
| EIs (a b : expr) | EIsNot (a b : expr)    (* is  is not : by identity *)
| EIn (a b : expr) | ENotIn (a b : expr)
| ENot (a : expr)
| EIsPdbCommand (e : expr)          (* isinstance(e, PdbCommand) *)
| ECurrentTraceNo                   (* self._hook.hook.current_trace_no() *)
| ECounterNext                      (* counter() *)
| EEmptyStr                         (* '' *)
| EOpaque (what : string)           (* a read the command path does not depend on: utcnow(), current_trace_call_info(), self._run_no *)
| EOpaqueOf (e : expr)              (* an attribute of such a value *)
| EMkStartPrompt (t p : expr)       (* OnStartPrompt(trace_no=t, prompt_no=p, ...): the other keywords are pure reads, *)
| EMkEndPrompt (t p c : expr).      (* OnEndPrompt(trace_no=t, prompt_no=p, command=c, ...)  emitted as SExpr statements in front *)

Inductive callee :=
| CFn (f : fname)                   (* a known function *)
| CVar (x : string)                 (* the function held by a variable *)
| CAttr (a : attr).                 (* the function held by a shared attribute (context.send_command) *)

(** exception classes named by an `except` clause *)
Inductive handles := HBaseException | HException | HAssertionError | HKeyError.

Inductive stmt :=
| SSkip
| SSeq (a b : stmt)
| SAssign (x : string) (e : expr)
| SExpr (e : expr)                         (* an expression evaluated for its effect *)
| SCall (dst : option string) (f : callee) (args : list expr)   (* [dst =] f(args) *)
| SSetItem (d k v : expr)                  (* d[k] = v *)
| SDelItem (d k : expr)                    (* del d[k] *)
| SPopItem (d k : expr)                    (* d.pop(k, None) *)
| SPut (q v : expr)                        (* q.put(v) *)
| SAssert (e : expr)
| SIf (c : expr) (a b : stmt)
| SWhile (c : expr) (b : stmt)
| SContinue
| SBreak
| SReturn (e : expr)
| SRaise                                   (* bare `raise` inside a handler *)
| STry (b : stmt) (h : handles) (hb : stmt)        (* try: b  except h: hb *)
| STryFinally (b f : stmt)                 (* try: b  finally: f *)
| SWithGen (g : gname) (args : list expr) (b : stmt)   (* with <generator context manager>(args): b *)
| SGenSend (e : expr)                      (* context.gen.send(e): into the generator of the enclosing with *)
| SYield (dst : option string)             (* [dst =] yield *)
| SWithExecutor (b : stmt)                 (* with ThreadPoolExecutor(max_workers=1) as executor: b  (exit: shutdown(wait=True)) *)
| SSubmit (f : fname) (args : list expr)   (* future = executor.submit(f, args) *)
| SFutureResult                            (* future.result() *)
(* ---- main process *)
| SSetAdd (s e : expr)                     (* s.add(e) *)
| SSetDiscard (s e : expr)                 (* s.discard(e) *)
| SSetRemove (s e : expr)                  (* s.remove(e): KeyError on a miss *)
| SSetClear (s : expr)                     (* s.clear() *)
| SAwaitHook (h : string)                  (* await ahook.<h>(context=context, event=event) *)
| SNewQueueIn                              (* queue_in = mp_context.Queue() *)
| SBindSendCommand                         (* context.send_command = SendCommand(queue_in) *)
| SSpawn.                                  (* context.running_process = await run_in_process(..., initializer=
                                              partial(spawned.set_queues, queue_in, queue_out)) *)

(** ---- the object wiring of pdb_/factory.py: PdbInstanceFactory.init / create_local_trace_func, Factory *)
Inductive wexpr :=
| WVar (x : string)                          (* local / parameter / closure variable *)
| WSelf (a : string)                         (* self.<a> *)
| WAttr (e : wexpr) (a : string)             (* e.<a> *)
| WNew (cls : string) (kw : list (string * wexpr))   (* Cls(k=v, ...): a class or a factory function, keywords only *)
| WCallVal (e : wexpr).                      (* e() *)

Inductive wstmt :=
| WAssign (x : string) (e : wexpr)
| WSetSelf (a : string) (e : wexpr)          (* self.<a> = e *)
| WSetAttr (x a : string) (e : wexpr)        (* x.<a> = e *)
| WDef (name : string) (body : list wstmt)   (* def name(): body   (a closure over the enclosing locals) *)
| WReturn (e : wexpr).
