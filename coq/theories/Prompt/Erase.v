(** Deleting never-executed commands from the stream (together with the relay
    step that moved each of them and the prompt-loop iteration that discarded
    it) changes nothing that the remaining labels do: a simulation between the
    run and the run of the erased label sequence. *)
From NL Require Import Prompt.Model Prompt.Hist Prompt.Inv Prompt.Once.
Open Scope Z_scope.

(** is this event the send / relay / discard of an instance in D ? *)
Definition erased (D : nat -> bool) (e : ev) : bool :=
  match e with
  | (Send _, OSent i) => D i
  | (Relay, ORelayed i) => D i
  | (Relay, ODropped i) => D i
  | (Take _, ODiscard _ i _) => D i
  | _ => false
  end.

Definition kept (D : nat -> bool) (tr : list ev) : list ev := filter (fun e => negb (erased D e)) tr.
Definition erase (D : nat -> bool) (tr : list ev) : list label := map fst (kept D tr).

(** an output without the ghost tags *)
Inductive vis :=
| VSent | VRelayed | VDropped | VIdle | VStarted | VEnded | VOpened (p : Z)
| VExec (p : Z) (c : cmd) | VDiscard (p : Z) (c : cmd) | VBlocked | VAssert | VNotEnabled.

Definition strip (o : out) : vis :=
  match o with
  | OSent _ => VSent | ORelayed _ => VRelayed | ODropped _ => VDropped | OIdle => VIdle
  | OStarted => VStarted | OEnded => VEnded | OOpened p => VOpened p
  | OExec p _ c => VExec p c | ODiscard p _ c => VDiscard p c | OBlocked => VBlocked
  | OAssert _ => VAssert | ONotEnabled => VNotEnabled
  end.
Definition strip_ev (e : ev) : label * vis := (fst e, strip (snd e)).

(** executed commands without tags: (trace, prompt, command) in order *)
Definition vexecs (tr : list ev) : list (Z * Z * cmd) :=
  map (fun e => match e with (t, p, _, c) => (t, p, c) end) (execs tr).

Definition keepq (D : nat -> bool) (q : list icmd) : list cmd :=
  map snd (filter (fun ic => negb (D (fst ic))) q).

Record Sim (D : nat -> bool) (s s' : state) : Prop := {
  sim_in : keepq D (s_in s) = map snd (s_in s');
  sim_map : forall t, option_map (keepq D) (s_map s t) = option_map (map snd) (s_map s' t);
  sim_open : forall t, s_open s t = s_open s' t;
  sim_ctr : s_ctr s = s_ctr s'
}.

Lemma keepq_app D a b : keepq D (a ++ b) = keepq D a ++ keepq D b.
Proof. unfold keepq. rewrite filter_app, map_app. reflexivity. Qed.

Lemma keepq_cons_t D i c r : D i = true -> keepq D ((i, c) :: r) = keepq D r.
Proof. intros H. unfold keepq. simpl. rewrite H. reflexivity. Qed.

Lemma keepq_cons_f D i c r : D i = false -> keepq D ((i, c) :: r) = c :: keepq D r.
Proof. intros H. unfold keepq. simpl. rewrite H. reflexivity. Qed.

Lemma sim_map_some D s s' t q : Sim D s s' -> s_map s t = Some q ->
  exists q', s_map s' t = Some q' /\ keepq D q = map snd q'.
Proof.
  intros S E. pose proof (sim_map _ _ _ S t) as H. rewrite E in H. simpl in H.
  destruct (s_map s' t) as [q'|]; [|discriminate]. inversion H. eauto.
Qed.

Lemma sim_map_none D s s' t : Sim D s s' -> s_map s t = None -> s_map s' t = None.
Proof.
  intros S E. pose proof (sim_map _ _ _ S t) as H. rewrite E in H. simpl in H.
  destruct (s_map s' t); [discriminate|reflexivity].
Qed.

Ltac updc := unfold upd; match goal with |- context [Z.eqb ?a ?b] => destruct (Z.eqb_spec a b) end.

Lemma sim_upd_map D s s' t q q' (m := s_map s) (m' := s_map s') :
  Sim D s s' -> option_map (keepq D) q = option_map (map snd) q' ->
  forall x, option_map (keepq D) (upd (s_map s) t q x) = option_map (map snd) (upd (s_map s') t q' x).
Proof. intros S H x. unfold upd. destruct (Z.eqb x t); [assumption|apply (sim_map _ _ _ S)]. Qed.

(** one step of the simulation *)
Lemma sim_step D s s' l :
  Sim D s s' ->
  (forall p i c, snd (step s l) = OExec p i c -> D i = false) ->
  (forall i, snd (step s l) <> OAssert i) ->
  if erased D (l, snd (step s l)) then Sim D (fst (step s l)) s'
  else strip (snd (step s' l)) = strip (snd (step s l)) /\ Sim D (fst (step s l)) (fst (step s' l)).
Proof.
  intros S Hex Has. destruct l as [c| |t|t|t|t].
  - (* Send *)
    simpl. destruct (D (s_nsent s)) eqn:Ed.
    + destruct S. constructor; simpl; auto. rewrite keepq_app, keepq_cons_t by assumption. simpl.
      rewrite app_nil_r. assumption.
    + split; [reflexivity|]. destruct S. constructor; simpl; auto.
      rewrite keepq_app, keepq_cons_f by assumption. rewrite map_app. simpl. unfold keepq at 2. simpl. congruence.
  - (* Relay *)
    simpl in *. destruct (s_in s) as [|[i c] r] eqn:Ein.
    + simpl. pose proof (sim_in _ _ _ S) as Hi. rewrite Ein in Hi. unfold keepq in Hi. simpl in Hi.
      destruct (s_in s') eqn:Ein'; [|discriminate]. simpl. split; [reflexivity|assumption].
    + destruct (D i) eqn:Ed.
      * (* the relayed / dropped instance is in D: s' does nothing *)
        pose proof (sim_in _ _ _ S) as Hi. rewrite Ein, keepq_cons_t in Hi by assumption.
        destruct (s_map s (c_trace c)) as [q|] eqn:Em; simpl; rewrite Ed.
        -- destruct (sim_map_some _ _ _ _ _ S Em) as (q' & Em' & Hq).
           constructor; simpl; auto; try apply S.
           intros x. unfold upd. destruct (Z.eqb_spec x (c_trace c)).
           ++ subst x. rewrite Em'. simpl. rewrite keepq_app, keepq_cons_t by assumption.
              unfold keepq at 2. simpl. rewrite app_nil_r. congruence.
           ++ apply (sim_map _ _ _ S).
        -- constructor; simpl; auto; apply S.
      * pose proof (sim_in _ _ _ S) as Hi. rewrite Ein, keepq_cons_f in Hi by assumption.
        destruct (s_in s') as [|[i' c'] r'] eqn:Ein'; [discriminate|]. simpl in Hi. inversion Hi; subst c'.
        destruct (s_map s (c_trace c)) as [q|] eqn:Em; simpl; rewrite Ed.
        -- destruct (sim_map_some _ _ _ _ _ S Em) as (q' & Em' & Hq). rewrite Em'. simpl.
           split; [reflexivity|]. constructor; simpl; auto; try apply S.
           intros x. unfold upd. destruct (Z.eqb_spec x (c_trace c)).
           ++ simpl. rewrite keepq_app, keepq_cons_f by assumption. rewrite map_app. simpl.
              unfold keepq at 2. simpl. congruence.
           ++ apply (sim_map _ _ _ S).
        -- rewrite (sim_map_none _ _ _ _ S Em). simpl. split; [reflexivity|].
           constructor; simpl; auto; apply S.
  - (* StartTrace *)
    simpl. destruct (s_map s t) as [q|] eqn:Em.
    + destruct (sim_map_some _ _ _ _ _ S Em) as (q' & Em' & Hq). rewrite Em'. simpl. split; [reflexivity|assumption].
    + rewrite (sim_map_none _ _ _ _ S Em). simpl. split; [reflexivity|].
      constructor; simpl; auto; try apply S.
      intros x. unfold upd. destruct (Z.eqb x t); [reflexivity|apply (sim_map _ _ _ S)].
  - (* EndTrace *)
    simpl. rewrite <- (sim_open _ _ _ S t). destruct (s_map s t) as [q|] eqn:Em.
    + destruct (sim_map_some _ _ _ _ _ S Em) as (q' & Em' & Hq). rewrite Em'.
      destruct (s_open s t); simpl; (split; [reflexivity|]); auto.
      constructor; simpl; auto; try apply S.
      intros x. unfold upd. destruct (Z.eqb x t); [reflexivity|apply (sim_map _ _ _ S)].
    + rewrite (sim_map_none _ _ _ _ S Em). simpl. split; [reflexivity|assumption].
  - (* OpenPrompt *)
    simpl. rewrite <- (sim_open _ _ _ S t). rewrite <- (sim_ctr _ _ _ S). destruct (s_map s t) as [q|] eqn:Em.
    + destruct (sim_map_some _ _ _ _ _ S Em) as (q' & Em' & Hq). rewrite Em'.
      destruct (s_open s t); simpl; (split; [reflexivity|]); auto.
      constructor; simpl; auto; try apply S; try (rewrite (sim_ctr _ _ _ S); reflexivity).
      intros x. unfold upd. destruct (Z.eqb x t); [reflexivity|apply (sim_open _ _ _ S)].
    + rewrite (sim_map_none _ _ _ _ S Em). simpl. split; [reflexivity|assumption].
  - (* Take *)
    simpl in *. rewrite <- (sim_open _ _ _ S t). destruct (s_open s t) as [p|] eqn:Eo; [|simpl; split; [reflexivity|assumption]].
    destruct (s_map s t) as [q|] eqn:Em.
    2:{ rewrite (sim_map_none _ _ _ _ S Em). simpl. split; [reflexivity|assumption]. }
    destruct (sim_map_some _ _ _ _ _ S Em) as (q' & Em' & Hq). rewrite Em'.
    destruct q as [|[i c] r].
    + unfold keepq in Hq. simpl in Hq. destruct q'; [|discriminate]. simpl. split; [reflexivity|assumption].
    + destruct (negb (c_trace c =? t)) eqn:Et; [exfalso; eapply Has; reflexivity|].
      destruct (D i) eqn:Ed.
      * rewrite keepq_cons_t in Hq by assumption.
        destruct (Z.eqb_spec (c_prompt c) p).
        -- simpl in Hex. specialize (Hex _ _ _ eq_refl). congruence.
        -- simpl. rewrite Ed. constructor; simpl; auto; try apply S.
           intros x. unfold upd. destruct (Z.eqb_spec x t); [subst; rewrite Em'; simpl; congruence|apply (sim_map _ _ _ S)].
      * rewrite keepq_cons_f in Hq by assumption.
        destruct q' as [|[i' c'] r']; [discriminate|]. simpl in Hq. inversion Hq; subst c'. rewrite Et.
        destruct (Z.eqb_spec (c_prompt c) p); simpl; rewrite ?Ed; (split; [reflexivity|]).
        -- constructor; simpl; auto; try apply S.
           ++ intros x. unfold upd. destruct (Z.eqb_spec x t); [simpl; congruence|apply (sim_map _ _ _ S)].
           ++ intros x. unfold upd. destruct (Z.eqb_spec x t); [reflexivity|apply (sim_open _ _ _ S)].
        -- constructor; simpl; auto; try apply S.
           intros x. unfold upd. destruct (Z.eqb_spec x t); [simpl; congruence|apply (sim_map _ _ _ S)].
Qed.

Lemma exec_out_label s l p i c : snd (step s l) = OExec p i c -> exists t, l = Take t.
Proof.
  destruct l; simpl; try discriminate; eauto.
  - destruct (s_in s) as [|[]]; [discriminate|]. destruct (s_map s (c_trace c0)); discriminate.
  - destruct (s_map s t); discriminate.
  - destruct (s_map s t); [destruct (s_open s t)|]; discriminate.
  - destruct (s_map s t); [destruct (s_open s t)|]; discriminate.
Qed.

Lemma sim_run D : forall ls s s', Sim D s s' ->
  (forall i, D i = true -> ~ In i (exec_ids (trace_from s ls))) ->
  (forall l i, ~ In (l, OAssert i) (trace_from s ls)) ->
  map strip_ev (trace_from s' (erase D (trace_from s ls))) = map strip_ev (kept D (trace_from s ls)).
Proof.
  induction ls as [|l ls IH]; intros s s' S Hex Has; [reflexivity|].
  simpl in Hex, Has.
  assert (H1 : forall p i c, snd (step s l) = OExec p i c -> D i = false).
  { intros p i c E. destruct (D i) eqn:Ed; [|reflexivity]. exfalso.
    destruct (exec_out_label _ _ _ _ _ E) as (t & ->). apply (Hex i Ed). rewrite E. left. reflexivity. }
  assert (H2 : forall i, snd (step s l) <> OAssert i).
  { intros i E. apply (Has l i). left. rewrite E. reflexivity. }
  assert (Hex' : forall i, D i = true -> ~ In i (exec_ids (trace_from (fst (step s l)) ls))).
  { intros i Ed Hin. apply (Hex i Ed). unfold exec_ids in *. simpl.
    destruct l; auto. destruct (snd (step s (Take t))); auto. right. assumption. }
  assert (Has' : forall l0 i, ~ In (l0, OAssert i) (trace_from (fst (step s l)) ls)).
  { intros l0 i Hin. apply (Has l0 i). right. assumption. }
  pose proof (sim_step D s s' l S H1 H2) as St.
  remember (erased D (l, snd (step s l))) as b eqn:Eb.
  unfold erase, kept in *. cbn [trace_from filter]. rewrite <- Eb. destruct b; cbn [negb map fst trace_from].
  - apply IH; assumption.
  - destruct St as [Hs St]. unfold strip_ev at 1 3. cbn [fst snd]. rewrite Hs. f_equal. apply IH; assumption.
Qed.

Lemma Sim_init D : Sim D init init.
Proof. constructor; reflexivity. Qed.

(** the run of the erased label sequence does, label for label, what the
    original run did at the labels that remain *)
Theorem erase_never_executed : forall ls D,
  (forall i, D i = true -> ~ In i (exec_ids (trace ls))) ->
  map strip_ev (trace (erase D (trace ls))) = map strip_ev (kept D (trace ls)).
Proof.
  intros ls D H. apply sim_run; [apply Sim_init|assumption|apply no_assertion_failure].
Qed.

Lemma vexecs_strip : forall a b, map strip_ev a = map strip_ev b -> vexecs a = vexecs b.
Proof.
  induction a as [|[l o] a IH]; destruct b as [|[l' o'] b]; simpl; intros H; try discriminate; [reflexivity|].
  inversion H. unfold strip_ev in H1. simpl in *. subst l'. specialize (IH _ H3). unfold vexecs in *. simpl.
  destruct l; auto. destruct o, o'; simpl in *; try discriminate; auto. inversion H2; subst. simpl. f_equal. assumption.
Qed.

Lemma vexecs_kept D : forall tr, vexecs (kept D tr) = vexecs tr.
Proof.
  induction tr as [|[l o] tr IH]; [reflexivity|].
  change (kept D ((l, o) :: tr)) with (if negb (erased D (l, o)) then (l, o) :: kept D tr else kept D tr).
  destruct (erased D (l, o)) eqn:E; cbn [negb].
  - rewrite IH. destruct l; destruct o; simpl in E; try discriminate; reflexivity.
  - unfold vexecs in *. destruct l; destruct o; simpl; rewrite ?IH; reflexivity.
Qed.

(** in particular the sequence of executed commands is unchanged *)
Theorem erase_same_execs : forall ls D,
  (forall i, D i = true -> ~ In i (exec_ids (trace ls))) ->
  vexecs (trace (erase D (trace ls))) = vexecs (trace ls).
Proof.
  intros ls D H. rewrite (vexecs_strip _ _ (erase_never_executed ls D H)). apply vexecs_kept.
Qed.
