(** The object wiring of pdb_/factory.py, on the REGENERATED bodies (Gen/PromptFuns.v:
    pif_init_body = PdbInstanceFactory.init, pif_create_body = PdbInstanceFactory.create_local_trace_func,
    factory_body = Factory): every trace function handed out during a run reaches, through
    pdb.stdin (a StdInOut) .prompt_func, ONE AND THE SAME PromptFunc object -- the one created
    when the plugin was initialised -- hence one prompt counter per run (Prompt/Tie.v interprets
    `counter()` on one shared counter; this file is what justifies that).

    A tiny object semantics: `Cls(k=v, ..)` allocates a fresh object remembering its keyword
    arguments (Factory is not a class: its regenerated body is run); `def f(): ..` is a closure
    over the locals bound so far; `x.a` reads the keyword argument a of x, or is a bound method.
    Attribute stores on locals (`stdio.prompt_end = ..`) are evaluated and not tracked; the
    translator refuses a store to an attribute this file reads.  Modelled, not verified:
    StdInOut keeps `prompt_func` and calls it in readline (shape-checked by the translator),
    pluggy calls `init` once per run and `create_local_trace_func` once per trace. *)
From NL Require Import Prompt.Syntax Gen.PromptFuns.
From Coq Require Import Lia.
Local Open Scope string_scope.

Inductive wval :=
| WNone
| WObj (cls : string) (id : nat) (fields : list (string * wval))
| WMeth (o : wval) (a : string)
| WClos (body : list wstmt) (env : list (string * wval)).

Fixpoint lookup {A} (x : string) (l : list (string * A)) : option A :=
  match l with [] => None | (y, v) :: r => if String.eqb x y then Some v else lookup x r end.

Notation wenv := (list (string * wval)).

(** result of a body: the returned value (if any), the fields of self, the allocation counter *)
Fixpoint weval (fuel : nat) (e : wexpr) (en self : wenv) (st : nat) {struct fuel} : option (wval * nat) :=
  match fuel with
  | O => None
  | S f =>
    match e with
    | WVar x => match lookup x en with Some v => Some (v, st) | None => None end
    | WSelf a => match lookup a self with Some v => Some (v, st) | None => None end
    | WAttr e' a =>
        match weval f e' en self st with
        | Some (WObj cls id fields, st1) =>
            Some (match lookup a fields with Some v => v | None => WMeth (WObj cls id fields) a end, st1)
        | _ => None
        end
    | WNew cls kw =>
        let fix args (kw : list (string * wexpr)) (st : nat) : option (wenv * nat) :=
          match kw with
          | [] => Some ([], st)
          | (k, e') :: r =>
              match weval f e' en self st with
              | Some (v, st1) => match args r st1 with Some (vs, st2) => Some ((k, v) :: vs, st2) | None => None end
              | None => None
              end
          end in
        match args kw st with
        | Some (fields, st1) =>
            if String.eqb cls "Factory"
            then match wrun f factory_body fields self st1 with Some (Some v, _, st2) => Some (v, st2) | _ => None end
            else Some (WObj cls st1 fields, S st1)
        | None => None
        end
    | WCallVal e' =>
        match weval f e' en self st with
        | Some (WClos body cenv, st1) =>
            match wrun f body cenv self st1 with Some (Some v, _, st2) => Some (v, st2) | _ => None end
        | _ => None
        end
    end
  end
with wrun (fuel : nat) (body : list wstmt) (en self : wenv) (st : nat) {struct fuel} : option (option wval * wenv * nat) :=
  match fuel with
  | O => None
  | S f =>
    match body with
    | [] => Some (None, self, st)
    | WAssign x e :: r => match weval f e en self st with Some (v, st1) => wrun f r ((x, v) :: en) self st1 | None => None end
    | WSetSelf a e :: r => match weval f e en self st with Some (v, st1) => wrun f r en ((a, v) :: self) st1 | None => None end
    | WSetAttr _ _ e :: r => match weval f e en self st with Some (_, st1) => wrun f r en self st1 | None => None end
    | WDef name b :: r => wrun f r ((name, WClos b en) :: en) self st
    | WReturn e :: _ => match weval f e en self st with Some (v, st1) => Some (Some v, self, st1) | None => None end
    end
  end.

Definition WFUEL : nat := 40.

(** the prompt function a trace function leads to: pdb.trace_dispatch -> pdb.stdin -> .prompt_func *)
Definition prompt_func_of (v : wval) : option wval :=
  match v with
  | WMeth (WObj _ _ fields) _ =>
      match lookup "stdin" fields with
      | Some (WObj _ _ f2) => lookup "prompt_func" f2
      | _ => None
      end
  | _ => None
  end.

Definition is_prompt_func (v : wval) : bool :=
  match v with WObj cls _ _ => String.eqb cls "PromptFunc" | _ => false end.

(** a closure sees the locals bound BEFORE its def: nothing it reads is assigned after it *)
Fixpoint assigned_after_def (seen_def : bool) (b : list wstmt) : bool :=
  match b with
  | [] => false
  | WDef _ _ :: r => assigned_after_def true r
  | WAssign _ _ :: r => seen_def || assigned_after_def seen_def r
  | _ :: r => assigned_after_def seen_def r
  end.

(** ONE PromptFunc per run: PdbInstanceFactory.init (whatever the allocation state st0) creates a
    PromptFunc object pf, and EVERY later create_local_trace_func() (whatever has been allocated
    meanwhile) returns a trace function whose stdin leads to that same pf and leaves self unchanged *)
Theorem one_prompt_func_per_run : forall hook st0,
  exists pf self st1,
    wrun WFUEL pif_init_body [("hook", hook)] [] st0 = Some (None, self, st1) /\
    (forall st, exists v st', wrun WFUEL pif_create_body [] self st = Some (Some v, self, st') /\ prompt_func_of v = Some pf) /\
    is_prompt_func pf = true.
Proof.
  intros hook st0. eexists. eexists. eexists. split; [reflexivity | ]. split.
  - intros st. eexists. eexists. split; reflexivity.
  - reflexivity.
Qed.

Lemma factory_closure_reads_earlier_locals : assigned_after_def false factory_body = false.
Proof. reflexivity. Qed.

(** hence: any number of traces, one counter *)
Corollary all_traces_share_the_prompt_func : forall (hook : wval) (st0 : nat),
  exists pf self, is_prompt_func pf = true /\
    forall sts : list nat,
      Forall (fun st => exists v st', wrun WFUEL pif_create_body [] self st = Some (Some v, self, st') /\ prompt_func_of v = Some pf) sts.
Proof.
  intros hook st0. destruct (one_prompt_func_per_run hook st0) as (pf & self & st1 & _ & H & Hp).
  exists pf, self. split; [exact Hp | ]. intros sts. apply Forall_forall. intros st _. apply H.
Qed.
