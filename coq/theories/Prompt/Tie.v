(** TIE of the hand-written model of the child-side command path (Prompt/Model.v) to the code
    of /repo.

    Gen/PromptFuns.v holds the statement trees of Prompt.init / on_start_trace / on_end_trace /
    prompt, relay_commands.fn, try_again_on_error, PromptFunc._prompt_func and
    SendCommand._send_command, REGENERATED from the source at every check
    (translate/prompt_funs.py, fail closed).  Prompt/Interp.v gives those trees a small-step
    semantics.  This file drives the interpreter by the SAME labels as Prompt/Model.v and proves
    that for EVERY list of labels the interpreter of the regenerated code and the model produce
    the same observable history (same output at every label: which instance was relayed or
    dropped, which prompt opened, which command was executed or discarded for which prompt) and
    the same queues ([sim]).  Every theorem of Prompt/{Inv,Once,Erase,Deliver}.v, being a
    statement about [trace ls], therefore holds of the regenerated code ([tie_*]).

    What a label means for the code (the only place where the granularity of the model is
    chosen; everything else is computed from the regenerated trees):
      Send c        SendCommand._send_command(PdbCommand c) runs to its end
      Relay         the relay thread (executor.submit(try_again_on_error, fn)), standing at
                    `queue_in.get()`, is woken and runs on to its next get
      StartTrace t  Prompt.on_start_trace(t) runs to its end   (enabled: t is not a live trace)
      EndTrace t    Prompt.on_end_trace(t) runs to its end     (enabled: t is live and its thread is not in a prompt)
      OpenPrompt t  the thread of the live trace t calls _prompt_func and runs on to its first get
      Take t        that thread, standing at `queue.get()`, is woken and runs on to its next get,
                    or returns from _prompt_func, or dies
    Liveness of trace numbers is the environment's (C06: a number is started once; a trace ends
    when its thread is done): a ghost set of the interpreter, NOT read off the code's dict --
    that the dict holds a queue exactly for the live traces is part of what is proved. *)
From NL Require Import Prompt.Interp Prompt.Hist.
From NL Require Prompt.Spec Prompt.Inv Prompt.Once.
From Coq Require Import Lia.
Open Scope Z_scope.

(** ================================================================== the interpreter's state *)
Record ist := mkI {
  i_sh : shared;
  i_relay : thread;                        (* the relay thread *)
  i_threads : Z -> option (thread * Z);    (* the thread of trace t while it is inside _prompt_func, and the
                                              prompt number on_prompt announced for it *)
  i_live : Z -> bool                       (* ghost: traces started and not ended *)
}.

Definition set_sh (s : ist) (sh : shared) : ist := mkI sh (i_relay s) (i_threads s) (i_live s).

(** Prompt.init: the map is created by the regenerated constructor expression *)
Definition sh_blank : shared := mkSh [] 0 DDefault (fun _ => None) (fun _ => []) 0 counter_start [] false false false.
Definition init_shared : shared :=
  match eval 0 sh_blank empty init_queue_map with
  | EOk sh _ VMap _ => sh
  | _ => sh_blank
  end.

(** The plugin framework enters Prompt.context() (a generator): it runs to its yield, entering
    relay_commands on the way, whose `executor.submit(f, args)` starts the relay thread; the relay
    thread runs on to its first get.  Both threads are COMPUTED from the regenerated bodies. *)
Definition ctx0 : thread := mkT 0 empty [KS prompt_context_body].
Definition booted : shared * thread * thread :=
  match resume FUEL init_shared ctx0 with
  | RAtGet sh cx [ISubmit f args] =>
      match call 0 (fst (fun_def f)) (snd (fun_def f)) args with
      | Some r0 =>
          match resume FUEL sh r0 with
          | RAtGet sh' r _ => (sh', cx, r)
          | _ => (sh, cx, r0)
          end
      | None => (sh, cx, ctx0)
      end
  | _ => (init_shared, ctx0, ctx0)
  end.
Definition relay_started : shared * thread := (fst (fst booted), snd booted).
(** the context thread, standing at the yield of Prompt.context inside `with relay_commands(..)` *)
Definition ctx_thread : thread := snd (fst booted).

Definition iinit : ist := mkI (fst relay_started) (snd relay_started) (fun _ => None) (fun _ => false).

Definition istep (s : ist) (l : label) : ist * option out :=
  let sh := i_sh s in
  match l with
  | Send c =>
      match call 0 send_command_params send_command_body [VCmd 0 c] with
      | Some th =>
          match resume FUEL sh th with
          | RDone sh' _ [ISent i] => (set_sh s sh', Some (OSent i))
          | _ => (s, None)
          end
      | None => (s, None)
      end
  | Relay =>
      match resume FUEL sh (i_relay s) with
      | RBlocked => (s, Some OIdle)
      | RAtGet sh' th' [IGot i _; IPut _ i' _] =>
          (mkI sh' th' (i_threads s) (i_live s), if Nat.eqb i i' then Some (ORelayed i) else None)
      | RAtGet sh' th' [IGot i _] => (mkI sh' th' (i_threads s) (i_live s), Some (ODropped i))
      | _ => (s, None)
      end
  | StartTrace t =>
      if i_live s t then (s, Some ONotEnabled) else
      match call t on_start_trace_params on_start_trace_body [VInt t] with
      | Some th =>
          match resume FUEL sh th with
          | RDone sh' _ [] => (mkI sh' (i_relay s) (i_threads s) (upd (i_live s) t true), Some OStarted)
          | _ => (s, None)
          end
      | None => (s, None)
      end
  | EndTrace t =>
      match i_live s t, i_threads s t with
      | true, None =>
          match call t on_end_trace_params on_end_trace_body [VInt t] with
          | Some th =>
              match resume FUEL sh th with
              | RDone sh' _ [] => (mkI sh' (i_relay s) (i_threads s) (upd (i_live s) t false), Some OEnded)
              | _ => (s, None)
              end
          | None => (s, None)
          end
      | _, _ => (s, Some ONotEnabled)
      end
  | OpenPrompt t =>
      match i_live s t, i_threads s t with
      | true, None =>
          match call t prompt_func_params prompt_func_body [VNone] with
          | Some th =>
              match resume FUEL sh th with
              | RAtGet sh' th' [IStartPrompt t' p] =>
                  (mkI sh' (i_relay s) (upd (i_threads s) t (Some (th', p))) (i_live s), if Z.eqb t' t then Some (OOpened p) else None)
              | _ => (s, None)
              end
          | None => (s, None)
          end
      | _, _ => (s, Some ONotEnabled)
      end
  | Take t =>
      match i_threads s t with
      | Some (th, p) =>
          match resume FUEL sh th with
          | RBlocked => (s, Some OBlocked)
          | RAtGet sh' th' [IGot i c] => (mkI sh' (i_relay s) (upd (i_threads s) t (Some (th', p))) (i_live s), Some (ODiscard p i c))
          | RDone sh' (VText i c) [IGot _ _; IEndPrompt t' p' (VText i' _)] =>
              (mkI sh' (i_relay s) (upd (i_threads s) t None) (i_live s),
               if Nat.eqb i i' && Z.eqb t' t then Some (OExec p' i c) else None)
          | RDied sh' XAssertion [IGot i _; IEndPrompt _ _ VEmptyStr] =>
              (* the AssertionError leaves _prompt_func through `with on_prompt`: its finally reports command='' *)
              (mkI sh' (i_relay s) (upd (i_threads s) t None) (i_live s), Some (OAssert i))
          | _ => (s, None)
          end
      | None => (s, Some ONotEnabled)
      end
  end.

Fixpoint itrace_from (s : ist) (ls : list label) : list (label * option out) :=
  match ls with
  | [] => []
  | l :: r => (l, snd (istep s l)) :: itrace_from (fst (istep s l)) r
  end.
Fixpoint iexec_from (s : ist) (ls : list label) : ist :=
  match ls with
  | [] => s
  | l :: r => iexec_from (fst (istep s l)) r
  end.
Definition itrace (ls : list label) := itrace_from iinit ls.
Definition ifinal (ls : list label) := iexec_from iinit ls.

(** the queue of trace t as the code holds it *)
Definition iqueue (s : ist) (t : Z) : option (list icmd) :=
  match h_dict (i_sh s) t with Some id => Some (h_heap (i_sh s) id) | None => None end.

Definition some_out (e : label * out) : label * option out := (fst e, Some (snd e)).

(** ================================================================== control points *)
(** The continuation of the relay thread at its get, and of a trace's thread at the get of
    Prompt.prompt: COMPUTED by running the interpreter on the regenerated code. *)
Definition K_relay : cont := Eval vm_compute in t_k (i_relay iinit).
Definition K_take1 : cont :=
  Eval vm_compute in
    match i_threads (iexec_from iinit [StartTrace 1; OpenPrompt 1]) 1 with Some (th, _) => t_k th | None => [] end.
(** the prompt number and the trace number are not in the continuation any more: they are
    locals of the suspended Repeater.on_prompt generator (held by the with frame) *)
Definition K_take : cont := K_take1.

(** ================================================================== what each wake-up computes *)
(** Symbolic execution of the regenerated bodies, one micro-step at a time ([run_step]): [cbn]
    evaluates one [mstep] on the concrete statement trees, the hypotheses about the data decide
    the lookups. *)
Definition run_cont (f : nat) (evs : list ievent) (r : mres) (sh : shared) (th : thread) : rres :=
  match r with
  | MNext sh' th' e => if at_get (t_k th') then RAtGet sh' th' (evs ++ e) else run f sh' th' (evs ++ e)
  | MBlocked => RStuck
  | MDone _ => RDone sh (returned th) evs
  | MDied sh' x e => RDied sh' x (evs ++ e)
  | MStuck => RStuck
  end.
Lemma run_step : forall f sh th evs r, mstep sh th = r -> run (S f) sh th evs = run_cont f evs r sh th.
Proof. intros; subst; reflexivity. Qed.
Definition resume_cont (f : nat) (r : mres) (sh : shared) (th : thread) : rres :=
  match r with
  | MBlocked => RBlocked
  | MNext sh' th' e => if at_get (t_k th') then RAtGet sh' th' e else run f sh' th' e
  | MDone _ => RDone sh (returned th) []
  | MDied sh' x e => RDied sh' x e
  | MStuck => RStuck
  end.
Lemma resume_step : forall f sh th r, mstep sh th = r -> resume f sh th = resume_cont f r sh th.
Proof. intros; subst; reflexivity. Qed.

Ltac red_cont := cbn [run_cont resume_cont do_raise at_get has_delim negb t_k stmt_has_get has_get orb existsb app returned].
Ltac ms tac := solve [cbn; repeat (progress tac; cbn); reflexivity].
Ltac run1 tac := erewrite run_step by (ms tac); red_cont.
Ltac res1 tac := erewrite resume_step by (ms tac); red_cont.
Ltac exec tac := unfold FUEL; res1 tac; repeat run1 tac; try reflexivity.

Lemma send_exec : forall sh c th,
  call 0 send_command_params send_command_body [VCmd 0 c] = Some th -> h_sentinel sh = false ->
  resume FUEL sh th = RDone (hset_in sh (h_in sh ++ [(h_nsent sh, c)]) (S (h_nsent sh))) VNone [ISent (h_nsent sh)].
Proof. intros sh c th H Hs. inversion H; subst. exec ltac:(rewrite ?Hs). Qed.

Lemma relay_idle : forall sh tno en, h_in sh = [] -> h_sentinel sh = false -> resume FUEL sh (mkT tno en K_relay) = RBlocked.
Proof. intros sh tno en H Hs. unfold K_relay. exec ltac:(rewrite ?H, ?Hs). Qed.

Lemma relay_some : forall sh tno en i c r id,
  h_in sh = (i, c) :: r -> h_dict sh (c_trace c) = Some id ->
  resume FUEL sh (mkT tno en K_relay) =
  RAtGet (hset_heap (hset_in sh r (h_nsent sh)) (hupd (h_heap sh) id (h_heap sh id ++ [(i, c)])))
         (mkT tno (eupd en "fn.l0" (VCmd i c)) K_relay) [IGot i c; IPut id i c].
Proof. intros sh tno en i c r id H E. unfold K_relay. exec ltac:(rewrite ?H, ?E). Qed.

Lemma relay_none : forall sh tno en i c r,
  h_kind sh = DPlain -> en "ta.a0"%string = Some (VFun FnFn) ->
  h_in sh = (i, c) :: r -> h_dict sh (c_trace c) = None ->
  resume FUEL sh (mkT tno en K_relay) =
  RAtGet (hset_in sh r (h_nsent sh)) (mkT tno (eupd en "fn.l0" (VCmd i c)) K_relay) [IGot i c].
Proof. intros sh tno en i c r Hk Ha H E. unfold K_relay. exec ltac:(rewrite ?H, ?E, ?Hk, ?Ha). Qed.

Lemma start_exec : forall sh t th,
  call t on_start_trace_params on_start_trace_body [VInt t] = Some th ->
  resume FUEL sh th = RDone (hset_dict (alloc sh) (upd (h_dict sh) t (Some (h_next sh)))) VNone [].
Proof. intros sh t th H. inversion H; subst. exec idtac. Qed.

Lemma end_exec : forall sh t th id,
  call t on_end_trace_params on_end_trace_body [VInt t] = Some th -> h_dict sh t = Some id ->
  resume FUEL sh th = RDone (hset_dict sh (upd (h_dict sh) t None)) VNone [].
Proof. intros sh t th id H E. inversion H; subst. exec ltac:(rewrite ?E). Qed.

Definition env_open (t p : Z) (id : nat) : env :=
  eupd (eupd (eupd (eupd (eupd (eupd (eupd (eupd (eupd (eupd (eupd (eupd (eupd empty "pf.a0" VNone) "pf.l0" (VInt p))
    "op.a0" (VInt p)) "op.a1" VNone) "op.l0" VOpaque) "op.l1" (VInt t)) "op.l2" VOpaque) "op.l3" VOpaque)
    "op.l4" (VEvent (MStart t p))) "op.l5" VEmptyStr)
    "prompt.a0" (VInt p)) "prompt.l0" (VInt t)) "prompt.l1" (VQueue id).

Lemma open_exec : forall sh t th id,
  call t prompt_func_params prompt_func_body [VNone] = Some th -> h_dict sh t = Some id ->
  resume FUEL sh th =
  RAtGet (hset_ctr sh (h_ctr sh + 1)) (mkT t (env_open t (h_ctr sh) id) K_take) [IStartPrompt t (h_ctr sh)].
Proof. intros sh t th id H E. inversion H; subst. exec ltac:(rewrite ?E). Qed.

Section Take.
  Variables (sh : shared) (tno : Z) (en : env) (p t : Z) (id : nat).
  Hypothesis Ha : en "prompt.a0"%string = Some (VInt p).
  Hypothesis Ht : en "prompt.l0"%string = Some (VInt t).
  Hypothesis Hq : en "prompt.l1"%string = Some (VQueue id).
  Hypothesis Hop : en "op.a0"%string = Some (VInt p).
  Hypothesis Hol : en "op.l1"%string = Some (VInt t).
  Hypothesis Ho5 : en "op.l5"%string = Some VEmptyStr.

  Lemma take_blocked : h_heap sh id = [] -> resume FUEL sh (mkT tno en K_take) = RBlocked.
  Proof. intros E. unfold K_take, K_take1. exec ltac:(rewrite ?Hq, ?E). Qed.

  Lemma take_assert : forall i c r, h_heap sh id = (i, c) :: r -> Z.eqb (c_trace c) t = false ->
    resume FUEL sh (mkT tno en K_take) =
    RDied (hset_heap sh (hupd (h_heap sh) id r)) XAssertion [IGot i c; IEndPrompt t p VEmptyStr].
  Proof. intros i c r E E1. unfold K_take, K_take1. exec ltac:(rewrite ?Hq, ?E, ?Ht, ?E1, ?Hop, ?Hol, ?Ho5). Qed.

  Lemma take_exec : forall i c r, h_heap sh id = (i, c) :: r -> Z.eqb (c_trace c) t = true -> Z.eqb (c_prompt c) p = true ->
    resume FUEL sh (mkT tno en K_take) =
    RDone (hset_heap sh (hupd (h_heap sh) id r)) (VText i c) [IGot i c; IEndPrompt t p (VText i c)].
  Proof. intros i c r E E1 E2. unfold K_take, K_take1. exec ltac:(rewrite ?Hq, ?E, ?Ht, ?E1, ?Ha, ?E2, ?Hop, ?Hol). Qed.

  Lemma take_discard : forall i c r, h_heap sh id = (i, c) :: r -> Z.eqb (c_trace c) t = true -> Z.eqb (c_prompt c) p = false ->
    resume FUEL sh (mkT tno en K_take) =
    RAtGet (hset_heap sh (hupd (h_heap sh) id r))
           (mkT tno (eupd (eupd en "prompt.l2" (VCmd i c)) "prompt.l3" (VInt (c_prompt c))) K_take) [IGot i c].
  Proof. intros i c r E E1 E2. unfold K_take, K_take1. exec ltac:(rewrite ?Hq, ?E, ?Ht, ?E1, ?Ha, ?E2). Qed.
End Take.

(** ================================================================== the simulation *)
Definition thread_ok (sh : shared) (t p : Z) (th : thread) : Prop :=
  t_k th = K_take /\ t_env th "prompt.a0"%string = Some (VInt p) /\ t_env th "prompt.l0"%string = Some (VInt t) /\
  t_env th "op.a0"%string = Some (VInt p) /\ t_env th "op.l1"%string = Some (VInt t) /\ t_env th "op.l5"%string = Some VEmptyStr /\
  exists id, h_dict sh t = Some id /\ t_env th "prompt.l1"%string = Some (VQueue id).

Record R (s : ist) (m : state) : Prop := mkR {
  r_in : h_in (i_sh s) = s_in m;
  r_nsent : h_nsent (i_sh s) = s_nsent m;
  r_ctr : h_ctr (i_sh s) = s_ctr m;
  r_kind : h_kind (i_sh s) = DPlain;
  r_sentinel : h_sentinel (i_sh s) = false;
  r_map : forall t, s_map m t = iqueue s t;                (* the queues *)
  r_fresh : forall t id, h_dict (i_sh s) t = Some id -> (id < h_next (i_sh s))%nat;
  r_inj : forall t t' id, h_dict (i_sh s) t = Some id -> h_dict (i_sh s) t' = Some id -> t = t';
  r_live : forall t, i_live s t = match h_dict (i_sh s) t with Some _ => true | None => false end;
  r_open : forall t, match s_open m t with
                     | Some p => exists th, i_threads s t = Some (th, p) /\ thread_ok (i_sh s) t p th
                     | None => i_threads s t = None
                     end;
  r_relay_k : t_k (i_relay s) = K_relay;
  r_relay_f : t_env (i_relay s) "ta.a0"%string = Some (VFun FnFn)
}.

Lemma R_init : R iinit init.
Proof. constructor; try reflexivity; intros; try discriminate. Qed.

Lemma upd_eq : forall A (f : Z -> A) k v, upd f k v k = v.
Proof. intros. unfold upd. rewrite Z.eqb_refl. reflexivity. Qed.
Lemma upd_neq : forall A (f : Z -> A) k v x, x <> k -> upd f k v x = f x.
Proof. intros. unfold upd. destruct (Z.eqb_spec x k); [contradiction | reflexivity]. Qed.

Definition sim1 (s : ist) (m : state) (l : label) : Prop :=
  R (fst (istep s l)) (fst (step m l)) /\ snd (istep s l) = Some (snd (step m l)) /\
  (h_open (i_sh (fst (istep s l))) = h_open (i_sh s) /\        (* the child never touches context.open_prompts *)
   h_bound (i_sh (fst (istep s l))) = h_bound (i_sh s)).       (* nor context.send_command *)

(** threads of other traces do not care about a change of the shared state that keeps the dict *)
Lemma thread_ok_dict : forall sh sh' t p th, (h_dict sh' t = h_dict sh t) -> thread_ok sh t p th -> thread_ok sh' t p th.
Proof. intros sh sh' t p th E (A & B & C & B' & C' & D' & id & D & F). repeat split; auto. exists id. rewrite E. auto. Qed.

Lemma sim_send : forall s m c, R s m -> sim1 s m (Send c).
Proof.
  intros [sh rel thr live] [mi mm mo mc mn] c [Hin Hns Hc Hk Hsn Hm Hf Hi Hl Ho Hrk Hrf]. cbn in *. subst mi mn mc.
  unfold sim1, istep. cbn [i_sh].
  destruct (call 0 send_command_params send_command_body [VCmd 0 c]) as [th | ] eqn:Ec; [ | cbv in Ec; discriminate Ec].
  rewrite (send_exec sh c th Ec Hsn). cbn [fst snd step set_sh i_sh i_relay i_threads i_live s_in s_nsent s_map s_open s_ctr].
  split; [ | repeat split; reflexivity].
  constructor; cbn; auto.
Qed.

Lemma sim_relay : forall s m, R s m -> sim1 s m Relay.
Proof.
  intros [sh [rno ren rk] thr live] [mi mm mo mc mn] [Hin Hns Hc Hk Hsn Hm Hf Hi Hl Ho Hrk Hrf]. cbn in *. subst mi mn mc rk.
  unfold sim1, istep, step. cbn [i_sh i_relay s_in s_map].
  destruct (h_in sh) as [ | [i c] r] eqn:Ein.
  - rewrite (relay_idle sh rno ren Ein Hsn). cbn. split; [ | repeat split; reflexivity].
    constructor; cbn; auto.
  - specialize (Hm (c_trace c)) as Hmc. unfold iqueue in Hmc. cbn in Hmc.
    destruct (h_dict sh (c_trace c)) as [id | ] eqn:Ed.
    + rewrite (relay_some sh rno ren i c r id Ein Ed). rewrite Hmc. cbn. rewrite Nat.eqb_refl. split; [ | repeat split; reflexivity].
      constructor; cbn; auto.
      * intros t. unfold iqueue. cbn. destruct (Z.eqb_spec t (c_trace c)) as [-> | Hne].
        -- rewrite upd_eq, Ed. unfold hupd. rewrite Nat.eqb_refl. reflexivity.
        -- rewrite upd_neq by assumption. rewrite Hm. unfold iqueue. cbn.
           destruct (h_dict sh t) as [id' | ] eqn:Et; [ | reflexivity].
           unfold hupd. destruct (Nat.eqb_spec id' id) as [-> | Hn]; [ | reflexivity].
           exfalso. apply Hne. eapply Hi; eassumption.
    + rewrite (relay_none sh rno ren i c r Hk Hrf Ein Ed). rewrite Hmc. cbn. split; [ | repeat split; reflexivity].
      constructor; cbn; auto.
Qed.

Lemma sim_start : forall s m t, R s m -> sim1 s m (StartTrace t).
Proof.
  intros [sh rel thr live] [mi mm mo mc mn] t [Hin Hns Hc Hk Hsn Hm Hf Hi Hl Ho Hrk Hrf]. cbn in *. subst mi mn mc.
  unfold sim1, istep, step. cbn [i_sh i_live s_map].
  rewrite Hl, Hm. unfold iqueue. cbn [i_sh].
  destruct (h_dict sh t) as [id | ] eqn:Ed.
  - cbn. split; [ | repeat split; reflexivity]. constructor; cbn; auto.
  - destruct (call t on_start_trace_params on_start_trace_body [VInt t]) as [th | ] eqn:Ec; [ | cbv in Ec; discriminate Ec].
    rewrite (start_exec sh t th Ec). cbn. split; [ | repeat split; reflexivity].
    constructor; cbn; auto.
    + intros t'. unfold iqueue. cbn. destruct (Z.eqb_spec t' t) as [-> | Hne].
      * rewrite !upd_eq. rewrite Nat.eqb_refl. reflexivity.
      * rewrite !upd_neq by assumption. rewrite Hm. unfold iqueue. cbn.
        destruct (h_dict sh t') as [id' | ] eqn:Et; [ | reflexivity].
        apply Hf in Et. destruct (Nat.eqb_spec id' (h_next sh)); [lia | reflexivity].
    + intros t' id'. destruct (Z.eqb_spec t' t) as [-> | Hne].
      * rewrite upd_eq. intros E; inversion E. lia.
      * rewrite upd_neq by assumption. intros E. apply Hf in E. lia.
    + intros t1 t2 id'. destruct (Z.eqb_spec t1 t) as [-> | Hn1]; destruct (Z.eqb_spec t2 t) as [-> | Hn2];
        rewrite ?upd_eq, ?upd_neq by assumption; intros E1 E2; auto.
      * inversion E1; subst. apply Hf in E2. lia.
      * inversion E2; subst. apply Hf in E1. lia.
      * eapply Hi; eassumption.
    + intros t'. destruct (Z.eqb_spec t' t) as [-> | Hne].
      * rewrite !upd_eq. reflexivity.
      * rewrite !upd_neq by assumption. apply Hl.
    + intros t'. specialize (Ho t'). destruct (mo t') as [p | ]; [ | assumption].
      destruct Ho as (th' & A & B). exists th'. split; [assumption | ]. eapply thread_ok_dict; [ | exact B].
      cbn. destruct B as (_ & _ & _ & _ & _ & _ & id' & D & _). apply upd_neq. intros ->. congruence.
Qed.

Lemma open_threads : forall s m t, R s m -> (i_threads s t = None <-> s_open m t = None).
Proof.
  intros s m t H. pose proof (r_open s m H t) as Ho. destruct (s_open m t).
  - destruct Ho as (th & A & _). rewrite A. split; discriminate.
  - tauto.
Qed.

Lemma sim_end : forall s m t, R s m -> sim1 s m (EndTrace t).
Proof.
  intros s m t H. pose proof (open_threads s m t H) as Hot. revert Hot.
  destruct s as [sh rel thr live]; destruct m as [mi mm mo mc mn]; destruct H as [Hin Hns Hc Hk Hsn Hm Hf Hi Hl Ho Hrk Hrf]. cbn in *. subst mi mn mc.
  intros Hot. unfold sim1, istep, step. cbn [i_sh i_live i_threads s_map s_open].
  rewrite Hl, Hm. unfold iqueue. cbn [i_sh].
  destruct (h_dict sh t) as [id | ] eqn:Ed.
  - destruct (mo t) as [p | ] eqn:Eo.
    + destruct (thr t) eqn:Et; [ | exfalso; destruct Hot as [Hot _]; specialize (Hot eq_refl); discriminate].
      cbn. split; [ | repeat split; reflexivity]. constructor; cbn; auto.
    + destruct Hot as [_ Hot]. rewrite (Hot eq_refl).
      destruct (call t on_end_trace_params on_end_trace_body [VInt t]) as [th | ] eqn:Ec; [ | cbv in Ec; discriminate Ec].
      rewrite (end_exec sh t th id Ec Ed). cbn. split; [ | repeat split; reflexivity].
      constructor; cbn; auto.
      * intros t'. unfold iqueue. cbn. destruct (Z.eqb_spec t' t) as [-> | Hne].
        -- rewrite !upd_eq. reflexivity.
        -- rewrite !upd_neq by assumption. rewrite Hm. reflexivity.
      * intros t' id'. destruct (Z.eqb_spec t' t) as [-> | Hne]; rewrite ?upd_eq, ?upd_neq by assumption; [discriminate | apply Hf].
      * intros t1 t2 id'. destruct (Z.eqb_spec t1 t) as [-> | Hn1]; destruct (Z.eqb_spec t2 t) as [-> | Hn2];
          rewrite ?upd_eq, ?upd_neq by assumption; try discriminate. apply Hi.
      * intros t'. destruct (Z.eqb_spec t' t) as [-> | Hne]; rewrite ?upd_eq, ?upd_neq by assumption; [reflexivity | apply Hl].
      * intros t'. specialize (Ho t'). destruct (mo t') as [p | ] eqn:Eo'; [ | assumption].
        destruct Ho as (th' & A & B). exists th'. split; [assumption | ]. eapply thread_ok_dict; [ | exact B].
        cbn. apply upd_neq. intros ->. congruence.
  - cbn. split; [ | repeat split; reflexivity]. constructor; cbn; auto.
Qed.

Lemma env_open_ok : forall sh t p id, h_dict sh t = Some id -> thread_ok sh t p (mkT t (env_open t p id) K_take).
Proof. intros sh t p id E. repeat split. exists id. split; [assumption | reflexivity]. Qed.

Lemma sim_open : forall s m t, R s m -> sim1 s m (OpenPrompt t).
Proof.
  intros s m t H. pose proof (open_threads s m t H) as Hot. revert Hot.
  destruct s as [sh rel thr live]; destruct m as [mi mm mo mc mn]; destruct H as [Hin Hns Hc Hk Hsn Hm Hf Hi Hl Ho Hrk Hrf]. cbn in *. subst mi mn mc.
  intros Hot. unfold sim1, istep, step. cbn [i_sh i_live i_threads s_map s_open].
  rewrite Hl, Hm. unfold iqueue. cbn [i_sh].
  destruct (h_dict sh t) as [id | ] eqn:Ed.
  - destruct (mo t) as [p | ] eqn:Eo.
    + destruct (thr t) eqn:Et; [ | exfalso; destruct Hot as [Hot _]; specialize (Hot eq_refl); discriminate].
      cbn. split; [ | repeat split; reflexivity]. constructor; cbn; auto.
    + destruct Hot as [_ Hot]. rewrite (Hot eq_refl).
      destruct (call t prompt_func_params prompt_func_body [VNone]) as [th | ] eqn:Ec; [ | cbv in Ec; discriminate Ec].
      rewrite (open_exec sh t th id Ec Ed). cbn. rewrite Z.eqb_refl. split; [ | repeat split; reflexivity].
      constructor; cbn; auto.
      intros t'. destruct (Z.eqb_spec t' t) as [-> | Hne].
      * rewrite !upd_eq. eexists. split; [reflexivity | ]. apply env_open_ok. exact Ed.
      * rewrite !upd_neq by assumption. specialize (Ho t'). destruct (mo t') as [p | ]; [ | assumption].
        destruct Ho as (th' & A & B). exists th'. split; [assumption | ]. eapply thread_ok_dict; [ | exact B]. reflexivity.
  - cbn. split; [ | repeat split; reflexivity]. constructor; cbn; auto.
Qed.

Lemma sim_take : forall s m t, R s m -> sim1 s m (Take t).
Proof.
  intros [sh rel thr live] [mi mm mo mc mn] t [Hin Hns Hc Hk Hsn Hm Hf Hi Hl Ho Hrk Hrf]. cbn in *. subst mi mn mc.
  unfold sim1, istep, step. cbn [i_sh i_threads s_map s_open].
  pose proof (Ho t) as Hot. destruct (mo t) as [p | ] eqn:Eo.
  2:{ rewrite Hot. cbn. split; [ | repeat split; reflexivity]. constructor; cbn; auto. }
  destruct Hot as ([tno en k] & Et & Hk' & Ha & Hl0 & Hop & Hol & Ho5 & id & Ed & Hq). cbn [t_k t_env] in Hk', Ha, Hl0, Hq, Hop, Hol, Ho5. subst k.
  rewrite Et. rewrite Hm. unfold iqueue. cbn [i_sh]. rewrite Ed.
  (* what the rest of R looks like after the queue of t lost its head *)
  assert (Hmap : forall r, h_heap sh id <> [] -> forall t', upd mm t (Some r) t' = iqueue (mkI (hset_heap sh (hupd (h_heap sh) id r)) rel thr live) t'
                 /\ forall thr', upd mm t (Some r) t' = iqueue (mkI (hset_heap sh (hupd (h_heap sh) id r)) rel thr' live) t').
  { intros r _ t'. assert (X : forall thr', upd mm t (Some r) t' = iqueue (mkI (hset_heap sh (hupd (h_heap sh) id r)) rel thr' live) t').
    { intros thr'. unfold iqueue. cbn. destruct (Z.eqb_spec t' t) as [-> | Hne].
      - rewrite upd_eq, Ed. unfold hupd. rewrite Nat.eqb_refl. reflexivity.
      - rewrite upd_neq by assumption. rewrite Hm. unfold iqueue. cbn.
        destruct (h_dict sh t') as [id' | ] eqn:Et'; [ | reflexivity].
        unfold hupd. destruct (Nat.eqb_spec id' id) as [-> | Hn]; [ | reflexivity].
        exfalso. apply Hne. eapply Hi; eassumption. }
    split; auto. }
  destruct (h_heap sh id) as [ | [i c] r] eqn:Eh.
  - rewrite (take_blocked sh tno en id Hq Eh). cbn. split; [ | repeat split; reflexivity]. constructor; cbn; auto.
  - assert (Hne : (i, c) :: r <> []) by discriminate. specialize (Hmap r Hne).
    destruct (Z.eqb (c_trace c) t) eqn:E1; cbn [negb].
    + destruct (Z.eqb (c_prompt c) p) eqn:E2.
      * rewrite (take_exec sh tno en p t id Ha Hl0 Hq Hop Hol i c r Eh E1 E2). cbn. rewrite Nat.eqb_refl, Z.eqb_refl. cbn. split; [ | repeat split; reflexivity].
        constructor; cbn; auto.
        -- intros t'. apply Hmap.
        -- intros t'. destruct (Z.eqb_spec t' t) as [-> | Hn].
           ++ rewrite !upd_eq. reflexivity.
           ++ rewrite !upd_neq by assumption. specialize (Ho t'). destruct (mo t') as [p' | ]; [ | assumption].
              destruct Ho as (th' & A & B). exists th'. split; [assumption | ]. eapply thread_ok_dict; [ | exact B]. reflexivity.
      * rewrite (take_discard sh tno en p t id Ha Hl0 Hq i c r Eh E1 E2). cbn. split; [ | repeat split; reflexivity].
        constructor; cbn; auto.
        -- intros t'. apply Hmap.
        -- intros t'. destruct (Z.eqb_spec t' t) as [-> | Hn].
           ++ rewrite upd_eq, Eo. eexists. split; [reflexivity | ].
              repeat split; cbn; auto. exists id. split; [assumption | ]. cbn. assumption.
           ++ rewrite upd_neq by assumption. specialize (Ho t'). destruct (mo t') as [p' | ]; [ | assumption].
              destruct Ho as (th' & A & B). exists th'. split; [assumption | ]. eapply thread_ok_dict; [ | exact B]. reflexivity.
    + rewrite (take_assert sh tno en p t id Hl0 Hq Hop Hol Ho5 i c r Eh E1). cbn. split; [ | repeat split; reflexivity].
      constructor; cbn; auto.
      * intros t'. apply Hmap.
      * intros t'. destruct (Z.eqb_spec t' t) as [-> | Hn].
        -- rewrite !upd_eq. reflexivity.
        -- rewrite !upd_neq by assumption. specialize (Ho t'). destruct (mo t') as [p' | ]; [ | assumption].
           destruct Ho as (th' & A & B). exists th'. split; [assumption | ]. eapply thread_ok_dict; [ | exact B]. reflexivity.
Qed.

Lemma step_sim : forall s m l, R s m -> sim1 s m l.
Proof.
  intros s m l H. destruct l.
  - apply sim_send; assumption.
  - apply sim_relay; assumption.
  - apply sim_start; assumption.
  - apply sim_end; assumption.
  - apply sim_open; assumption.
  - apply sim_take; assumption.
Qed.

(** THE TIE: for every list of labels, the interpreter of the regenerated code and the model
    produce the same output at every label and end in related states (induction over the label
    list; [step_sim] is the one-label case: symbolic execution of the regenerated trees). *)
Lemma sim_from : forall ls s m, R s m ->
  itrace_from s ls = map some_out (trace_from m ls) /\ R (iexec_from s ls) (exec_from m ls).
Proof.
  induction ls as [ | l ls IH]; intros s m H; simpl.
  - split; [reflexivity | assumption].
  - destruct (step_sim s m l H) as [H1 [H2 _]]. destruct (IH _ _ H1) as [A B]. split; [ | assumption].
    rewrite A. unfold some_out at 1. simpl. rewrite H2. reflexivity.
Qed.

Theorem sim : forall ls, itrace ls = map some_out (trace ls) /\ R (ifinal ls) (final ls).
Proof. intros ls. apply sim_from. apply R_init. Qed.

(** the history the regenerated code produced (labels whose effect the interpreter could classify) *)
Definition ihist (ls : list label) : list ev :=
  flat_map (fun e => match snd e with Some o => [(fst e, o)] | None => [] end) (itrace ls).

Lemma ihist_some : forall tr : list ev,
  flat_map (fun e : label * option out => match snd e with Some o => [(fst e, o)] | None => [] end) (map some_out tr) = tr.
Proof. induction tr as [ | [l o] tr IH]; simpl; [reflexivity | rewrite IH; reflexivity]. Qed.

(** same observable history; the interpreter is never at a loss on the regenerated code *)
Theorem tie_same_history : forall ls,
  ihist ls = trace ls /\ map fst (itrace ls) = ls /\ forall e, In e (itrace ls) -> snd e <> None.
Proof.
  intros ls. destruct (sim ls) as [A _]. unfold ihist. rewrite A. split; [apply ihist_some | ]. split.
  - rewrite map_map. unfold some_out. simpl. unfold trace. clear A. generalize init.
    induction ls as [ | l ls IH]; intros s; simpl; [reflexivity | rewrite IH; reflexivity].
  - intros e Hin. apply in_map_iff in Hin. destruct Hin as (x & <- & _). discriminate.
Qed.

(** same executed-command log *)
Theorem tie_same_executed : forall ls, execs (ihist ls) = execs (trace ls).
Proof. intros ls. destruct (tie_same_history ls) as [A _]. rewrite A. reflexivity. Qed.

(** same queues: queue_in and the queue of every trace number *)
Theorem tie_same_queues : forall ls,
  h_in (i_sh (ifinal ls)) = s_in (final ls) /\ forall t, iqueue (ifinal ls) t = s_map (final ls) t.
Proof. intros ls. destruct (sim ls) as [_ H]. split; [apply (r_in _ _ H) | intros t; symmetry; apply (r_map _ _ H)]. Qed.

(** ... and the same counter, the same open prompts *)
Theorem tie_same_prompts : forall ls t,
  h_ctr (i_sh (ifinal ls)) = s_ctr (final ls) /\
  match i_threads (ifinal ls) t with Some (_, p) => s_open (final ls) t = Some p | None => s_open (final ls) t = None end.
Proof.
  intros ls t. destruct (sim ls) as [_ H]. split; [apply (r_ctr _ _ H) | ].
  pose proof (r_open _ _ H t) as Ho. destruct (s_open (final ls) t) as [p | ].
  - destruct Ho as (th & A & _). rewrite A. reflexivity.
  - rewrite Ho. reflexivity.
Qed.

(** ---- the theorems of Prompt/{Once,Deliver}.v about the regenerated code *)
Theorem tie_exactly_once : forall ls, NoDup (exec_ids (ihist ls)) /\ NoDup (exec_prompts (ihist ls)).
Proof. intros ls. destruct (tie_same_history ls) as [A _]. rewrite A. apply Once.exec_once. Qed.

Theorem tie_exactly_once_addressed : forall ls pre t p i c post,
  ihist ls = pre ++ (Take t, OExec p i c) :: post ->
  nth_error (sends (ihist ls)) i = Some c /\ nth_error (sends pre) i = Some c /\
  c_trace c = t /\ c_prompt c = p /\ open_in pre t = Some p /\ In i (relayed pre).
Proof. intros ls pre t p i c post. destruct (tie_same_history ls) as [A _]. rewrite A. apply Once.exec_is_addressed. Qed.

Theorem tie_no_assertion_failure : forall ls l i, ~ In (l, OAssert i) (ihist ls).
Proof. intros ls l i. destruct (tie_same_history ls) as [A _]. rewrite A. apply Once.no_assertion_failure. Qed.

Theorem tie_decoys_discarded_partial : forall ls i c,
  nth_error (sends (ihist ls)) i = Some c -> Spec.decoy_after_arrival (ihist ls) i c -> ~ In i (exec_ids (ihist ls)).
Proof. intros ls i c. destruct (tie_same_history ls) as [A _]. rewrite A. apply Once.discarded_if_never_open_after_arrival. Qed.

Theorem tie_other_trace_discarded : forall ls i c t',
  nth_error (sends (ihist ls)) i = Some c -> In (t', c_prompt c) (opens (ihist ls)) -> t' <> c_trace c ->
  ~ In i (exec_ids (ihist ls)).
Proof. intros ls i c t'. destruct (tie_same_history ls) as [A _]. rewrite A. apply Once.other_trace_discarded. Qed.

Theorem tie_nonexistent_discarded : forall ls i c,
  nth_error (sends (ihist ls)) i = Some c -> ~ In (c_trace c, c_prompt c) (opens (ihist ls)) -> ~ In i (exec_ids (ihist ls)).
Proof. intros ls i c. destruct (tie_same_history ls) as [A _]. rewrite A. apply Once.nonexistent_discarded. Qed.

Theorem tie_already_answered_discarded : forall ls pre c i post,
  ihist ls = pre ++ (Send c, OSent i) :: post -> In (c_prompt c) (exec_prompts pre) -> ~ In i (exec_ids (ihist ls)).
Proof. intros ls pre c i post. destruct (tie_same_history ls) as [A _]. rewrite A. apply Once.stale_discarded. Qed.

(** ---- direct corollaries on the regenerated code *)

(** (1) the relay thread puts a command only on the queue object that the map holds under the
    command's OWN trace number, and under no other number; a command for a number the map does
    not hold is put nowhere (KeyError, swallowed by try_again_on_error, which calls fn again:
    the thread is back at its get) *)
Theorem tie_put_on_own_queue : forall ls,
  let s := ifinal ls in
  match resume FUEL (i_sh s) (i_relay s) with
  | RBlocked => h_in (i_sh s) = []
  | RAtGet sh' th' evs =>
      t_k th' = K_relay /\ h_kind sh' = DPlain /\
      exists i c r, h_in (i_sh s) = (i, c) :: r /\
        match h_dict (i_sh s) (c_trace c) with
        | Some id => evs = [IGot i c; IPut id i c] /\ (forall t, h_dict (i_sh s) t = Some id -> t = c_trace c)
        | None => evs = [IGot i c]
        end
  | _ => False
  end.
Proof.
  intros ls s. destruct (sim ls) as [_ H]. fold s in H. destruct H as [_ _ _ Hk Hsn _ _ Hi _ _ Hrk Hrf].
  destruct (i_relay s) as [rno ren rk]. cbn in Hrk, Hrf. subst rk.
  destruct (h_in (i_sh s)) as [ | [i c] r] eqn:Ein.
  - rewrite (relay_idle _ rno ren Ein Hsn). reflexivity.
  - destruct (h_dict (i_sh s) (c_trace c)) as [id | ] eqn:Ed.
    + rewrite (relay_some _ rno ren i c r id Ein Ed). split; [reflexivity | ]. split; [exact Hk | ].
      exists i, c, r. split; [reflexivity | ]. rewrite Ed. split; [reflexivity | ].
      intros t Et. eapply Hi; eassumption.
    + rewrite (relay_none _ rno ren i c r Hk Hrf Ein Ed). split; [reflexivity | ]. split; [exact Hk | ].
      exists i, c, r. split; [reflexivity | ]. rewrite Ed. reflexivity.
Qed.

(** the map holds a queue exactly for the live trace numbers, distinct objects for distinct numbers *)
Theorem tie_queue_iff_live : forall ls t,
  (i_live (ifinal ls) t = true <-> iqueue (ifinal ls) t <> None) /\
  forall t' id, h_dict (i_sh (ifinal ls)) t = Some id -> h_dict (i_sh (ifinal ls)) t' = Some id -> t = t'.
Proof.
  intros ls t. destruct (sim ls) as [_ H]. split.
  - rewrite (r_live _ _ H). unfold iqueue. destruct (h_dict (i_sh (ifinal ls)) t); split; intros; try discriminate; auto.
  - intros t' id. apply (r_inj _ _ H).
Qed.

(** (2) a command taken from the queue while prompt p is open is executed iff its prompt number
    EQUALS p; otherwise it is discarded and the prompt stays open *)
Theorem tie_executed_iff_equal : forall ls t th p i c r,
  i_threads (ifinal ls) t = Some (th, p) -> iqueue (ifinal ls) t = Some ((i, c) :: r) ->
  snd (istep (ifinal ls) (Take t)) = Some (if Z.eqb (c_prompt c) p then OExec p i c else ODiscard p i c) /\
  (snd (istep (ifinal ls) (Take t)) = Some (OExec p i c) <-> c_prompt c = p).
Proof.
  intros ls t th p i c r Et Eq.
  destruct (sim ls) as [_ H]. destruct (step_sim _ _ (Take t) H) as [_ [Hs _]].
  assert (Hm : s_map (final ls) t = Some ((i, c) :: r)) by (rewrite (r_map _ _ H); exact Eq).
  assert (Ho : s_open (final ls) t = Some p).
  { pose proof (r_open _ _ H t) as Ho. destruct (s_open (final ls) t) as [p' | ].
    - destruct Ho as (th' & A & _). rewrite A in Et. inversion Et. reflexivity.
    - rewrite Ho in Et. discriminate. }
  assert (Hc : c_trace c = t).
  { pose proof (Inv.Inv_reach ls) as I. destruct (Inv.i_q _ _ I t _ i c Hm (or_introl eq_refl)) as (_ & A & _). exact A. }
  assert (X : snd (step (final ls) (Take t)) = if Z.eqb (c_prompt c) p then OExec p i c else ODiscard p i c).
  { unfold step. rewrite Ho, Hm. rewrite Hc, Z.eqb_refl. cbn [negb]. destruct (Z.eqb (c_prompt c) p); reflexivity. }
  rewrite Hs, X. split; [reflexivity | ].
  destruct (Z.eqb_spec (c_prompt c) p); split; intros E; auto; try discriminate E. contradiction.
Qed.

(** the prompt number announced for a prompt is the counter's value, unique in the run *)
Theorem tie_prompt_numbers_unique : forall ls, NoDup (map snd (opens (ihist ls))).
Proof. intros ls. destruct (tie_same_history ls) as [A _]. rewrite A. apply (Inv.i_opens_nodup _ _ (Inv.Inv_reach ls)). Qed.

(** non-vacuity: the interpreter runs the regenerated code through the example of Props/C07.v *)
Definition tie_ex_run : list label :=
  [StartTrace 1; StartTrace 2; OpenPrompt 1; OpenPrompt 2;
   Send (mkCmd 1 2 901); Send (mkCmd 7 1 902); Send (mkCmd 2 9 903); Send (mkCmd 2 2 5);
   Send (mkCmd 2 2 904); Send (mkCmd 1 1 6); Send (mkCmd 1 1 905);
   Relay; Relay; Relay; Relay; Relay; Relay; Relay;
   Take 1; Take 2; Take 2; Take 1; OpenPrompt 2; Take 2; Take 2; EndTrace 1].

Example tie_example :
  execs (ihist tie_ex_run) = [(2, 2, 3%nat, mkCmd 2 2 5); (1, 1, 5%nat, mkCmd 1 1 6)] /\
  map snd (itrace [StartTrace 1; OpenPrompt 1; Send (mkCmd 2 1 7); Send (mkCmd 1 1 8); Relay; Relay; Take 1]) =
    [Some OStarted; Some (OOpened 1); Some (OSent 0); Some (OSent 1); Some (ODropped 0); Some (ORelayed 1);
     Some (OExec 1 1 (mkCmd 1 1 8))].
Proof. vm_compute. split; reflexivity. Qed.

(** ================================================================== start-up and shut-down of the relay *)
(** relay_commands is interpreted as what it is: a generator context manager with
    `with ThreadPoolExecutor(max_workers=1)`, `executor.submit(try_again_on_error, fn)`,
    `try: yield  finally: queue_in.put(None); future.result()`.  The protected body is the single
    `yield` (the whole run happens there), so "the finally body is reached from every suspension
    point of the protected body" is: reached when the context is left normally AND when the
    body raised (the exception is thrown into the generator at its yield). *)
Definition K_ctx : cont := Eval vm_compute in t_k ctx_thread.

(** entering Prompt.context() submits exactly try_again_on_error(fn) and stops at the yield *)
Lemma boot_submits :
  exists sh cx, resume FUEL init_shared ctx0 = RAtGet sh cx [ISubmit FnTryAgain [VFun FnFn]] /\ t_k cx = K_ctx /\
                sh = init_shared /\ at_get (t_k cx) = true.
Proof. eexists. eexists. split; [vm_compute; reflexivity | ]. repeat split. Qed.

(** the relay thread of every run IS that submitted call, run to its first get *)
Lemma relay_is_the_submitted_call : t_k (i_relay iinit) = K_relay /\ t_env (i_relay iinit) "ta.a0"%string = Some (VFun FnFn).
Proof. split; reflexivity. Qed.

Definition K_ctx_wait : cont := Eval vm_compute in
  match after_yield (mkT 0 empty K_ctx) None with
  | Some th => match resume FUEL init_shared th with RAtGet _ th' _ => t_k th' | _ => [] end
  | None => []
  end.
Definition K_ctx_wait_raising (x : exc) : cont := Eval vm_compute in
  match after_yield (mkT 0 empty K_ctx) (Some x) with
  | Some th => match resume FUEL init_shared th with RAtGet _ th' _ => t_k th' | _ => [] end
  | None => []
  end.

(** leaving the context normally: the sentinel is put, then the thread waits for the future *)
Lemma ctx_exit_normal : forall sh tno en th,
  h_sentinel sh = false -> after_yield (mkT tno en K_ctx) None = Some th ->
  resume FUEL sh th = RAtGet (hset_sentinel sh true) (mkT tno en K_ctx_wait) [ISentinel].
Proof. intros sh tno en th Hs H. inversion H; subst. exec ltac:(rewrite ?Hs). Qed.

(** the body raised x: the SAME finally body runs (sentinel, wait), with x still propagating behind it *)
Lemma ctx_exit_raising : forall sh tno en th x,
  h_sentinel sh = false -> after_yield (mkT tno en K_ctx) (Some x) = Some th ->
  resume FUEL sh th = RAtGet (hset_sentinel sh true) (mkT tno en (K_ctx_wait_raising x)) [ISentinel].
Proof. intros sh tno en th x Hs H. inversion H; subst. destruct x; exec ltac:(rewrite ?Hs). Qed.

(** while the relay thread is alive the context thread stays blocked; once its future is done the
    context is left: normally, or with the body's exception *)
Lemma ctx_waits : forall sh tno en, h_relay_done sh = false ->
  resume FUEL sh (mkT tno en K_ctx_wait) = RBlocked /\ forall x, resume FUEL sh (mkT tno en (K_ctx_wait_raising x)) = RBlocked.
Proof. intros sh tno en H. split; [ | intros x; destruct x]; exec ltac:(rewrite ?H). Qed.

(** (future.result() returns; then the exit of `with ThreadPoolExecutor` waits for the same future: a second wake-up) *)
Lemma ctx_ends : forall sh tno en, h_relay_done sh = true ->
  (exists th' v, resume FUEL sh (mkT tno en K_ctx_wait) = RAtGet sh th' [] /\ resume FUEL sh th' = RDone sh v []) /\
  forall x, exists th', resume FUEL sh (mkT tno en (K_ctx_wait_raising x)) = RAtGet sh th' [] /\ resume FUEL sh th' = RDied sh x [].
Proof.
  intros sh tno en H. split; [eexists | intros x; destruct x]; eexists; (split; [exec ltac:(rewrite ?H) | exec ltac:(rewrite ?H)]).
Qed.

(** the relay thread at its get, queue_in empty, the sentinel there: `while msg := queue_in.get()`
    ends, fn returns, try_again_on_error returns: the thread (the future) is done *)
Lemma relay_ends : forall sh tno en, h_in sh = [] -> h_sentinel sh = true ->
  resume FUEL sh (mkT tno en K_relay) = RDone (hset_sentinel sh false) VNone [].
Proof. intros sh tno en H Hs. unfold K_relay. exec ltac:(rewrite ?H, ?Hs). Qed.

(** ... and until then it relays exactly as without the sentinel *)
Definition with_sentinel (s : ist) (b : bool) : ist := set_sh s (hset_sentinel (i_sh s) b).

Lemma relay_step_sentinel : forall s m b, R s m -> h_in (i_sh s) <> [] ->
  istep (with_sentinel s b) Relay = (with_sentinel (fst (istep s Relay)) b, snd (istep s Relay)).
Proof.
  intros [sh [rno ren rk] thr live] m b [Hin Hns Hc Hk Hsn Hm Hf Hi Hl Ho Hrk Hrf] Hne. cbn in *. subst rk.
  unfold istep, with_sentinel. cbn [i_sh i_relay set_sh i_threads i_live].
  destruct (h_in sh) as [ | [i c] r] eqn:Ein; [contradiction | ].
  destruct (h_dict sh (c_trace c)) as [id | ] eqn:Ed.
  - rewrite (relay_some sh rno ren i c r id Ein Ed).
    rewrite (relay_some (hset_sentinel sh b) rno ren i c r id); [ | exact Ein | exact Ed].
    cbn. destruct (Nat.eqb i i); reflexivity.
  - rewrite (relay_none sh rno ren i c r Hk Hrf Ein Ed).
    rewrite (relay_none (hset_sentinel sh b) rno ren i c r); [ | exact Hk | exact Hrf | exact Ein | exact Ed].
    reflexivity.
Qed.

Fixpoint relay_n (n : nat) (s : ist) : ist :=
  match n with O => s | S k => relay_n k (fst (istep s Relay)) end.

Lemma with_sentinel_false : forall s m, R s m -> with_sentinel s false = s.
Proof.
  intros [[a b c d e f g h i j k] rel thr live] m H. pose proof (r_sentinel _ _ H) as Hs. cbn in Hs. subst i. reflexivity.
Qed.

(** SHUT-DOWN: from ANY reachable state, once the sentinel is behind the commands of queue_in, the
    relay thread relays those commands exactly as the model's Relay does (one per wake-up, in
    order, none lost), then takes the sentinel and ends: future.result() returns *)
Theorem relay_drains_and_ends : forall n s m, R s m -> n = length (s_in m) ->
  let s' := relay_n n (with_sentinel s true) in
  R (with_sentinel s' false) (exec_from m (repeat Relay n)) /\
  h_in (i_sh s') = [] /\ h_sentinel (i_sh s') = true /\
  resume FUEL (i_sh s') (i_relay s') = RDone (hset_sentinel (i_sh s') false) VNone [].
Proof.
  induction n as [ | n IH]; intros s m H Hn s'.
  - subst s'. cbn [relay_n repeat exec_from].
    assert (E : h_in (i_sh s) = []).
    { rewrite (r_in _ _ H). destruct (s_in m); [reflexivity | discriminate Hn]. }
    split; [ | split; [ | split]].
    + destruct s as [[a b c d e f g h i j k] rel thr live]. pose proof (r_sentinel _ _ H) as Hs. cbn in Hs. subst i. exact H.
    + destruct s as [sh rel thr live]; exact E.
    + destruct s as [sh rel thr live]; reflexivity.
    + destruct s as [sh [rno ren rk] thr live]. pose proof (r_relay_k _ _ H) as Hk. cbn in Hk, E |- *. subst rk.
      apply relay_ends; [exact E | reflexivity].
  - assert (Hne : h_in (i_sh s) <> []).
    { rewrite (r_in _ _ H). destruct (s_in m); [discriminate Hn | discriminate]. }
    destruct (step_sim s m Relay H) as (H1 & _ & _).
    assert (Hlen : n = length (s_in (fst (step m Relay)))).
    { unfold step. destruct (s_in m) as [ | [i c] r]; [discriminate Hn | ]. cbn in Hn.
      destruct (s_map m (c_trace c)); cbn; lia. }
    subst s'. cbn [relay_n repeat exec_from]. rewrite (relay_step_sentinel s m true H Hne). cbn [fst].
    exact (IH _ _ H1 Hlen).
Qed.
