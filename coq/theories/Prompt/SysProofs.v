(** Proofs about the composed system (Prompt/System.v). *)
From NL Require Import Prompt.Model Prompt.Hist Prompt.Spec Prompt.Inv Prompt.Once Prompt.Deliver Prompt.System.
Open Scope Z_scope.

Lemma sexec_from_app : forall a s b, sexec_from s (a ++ b) = sexec_from (sexec_from s a) b.
Proof. induction a; simpl; intros; [reflexivity|apply IHa]. Qed.
Lemma sproj_from_app : forall a s b, sproj_from s (a ++ b) = sproj_from s a ++ sproj_from (sexec_from s a) b.
Proof. induction a; simpl; intros; [reflexivity|rewrite IHa, app_assoc; reflexivity]. Qed.
Lemma strace_from_app : forall a s b, strace_from s (a ++ b) = strace_from s a ++ strace_from (sexec_from s a) b.
Proof. induction a; simpl; intros; [reflexivity|rewrite IHa; reflexivity]. Qed.

Lemma sfinal_snoc ls l : sfinal (ls ++ [l]) = fst (sstep (sfinal ls) l).
Proof. unfold sfinal. rewrite sexec_from_app. reflexivity. Qed.
Lemma sproj_snoc ls l :
  sproj (ls ++ [l]) = sproj ls ++ match child_label (sfinal ls) l with Some l' => [l'] | None => [] end.
Proof. unfold sproj, sfinal. rewrite sproj_from_app. simpl. rewrite app_nil_r. reflexivity. Qed.
Lemma strace_snoc ls l : strace (ls ++ [l]) = strace ls ++ [(l, snd (sstep (sfinal ls) l))].
Proof. unfold strace, sfinal. rewrite strace_from_app. reflexivity. Qed.

Lemma ch_step s l :
  ch (fst (sstep s l)) = match child_label s l with Some l' => fst (step (ch s) l') | None => ch s end.
Proof.
  destruct l as [l'| |c]; simpl.
  - destruct l'; reflexivity.
  - destruct (evq s); reflexivity.
  - destruct (mem (c_trace c, c_prompt c) (mopen s)); reflexivity.
Qed.

Lemma ch_final : forall ls, ch (sfinal ls) = final (sproj ls).
Proof.
  induction ls using rev_ind; [reflexivity|].
  rewrite sfinal_snoc, sproj_snoc, ch_step, IHls.
  destruct (child_label (sfinal ls) x); [rewrite final_snoc; reflexivity|rewrite app_nil_r; reflexivity].
Qed.

Lemma ctrace_snoc ls l :
  ctrace (ls ++ [l]) = ctrace ls ++ match child_label (sfinal ls) l with
                                    | Some l' => [(l', snd (step (ch (sfinal ls)) l'))] | None => [] end.
Proof.
  unfold ctrace. rewrite sproj_snoc. destruct (child_label (sfinal ls) l).
  - rewrite trace_snoc, ch_final. reflexivity.
  - rewrite !app_nil_r. reflexivity.
Qed.

Lemma mem_true x l : mem x l = true -> In x l.
Proof.
  unfold mem. rewrite existsb_exists. intros (y & Hin & E). unfold pair_eqb in E.
  apply andb_true_iff in E. destruct E as [E1 E2]. apply Z.eqb_eq in E1, E2.
  destruct x, y; simpl in *; subst. assumption.
Qed.

Lemma in_remove_pair x y l : In y (remove_pair x l) -> In y l.
Proof. unfold remove_pair. intros H. apply filter_In in H. tauto. Qed.

Lemma opens_emitted l o t n : In (MStart t n) (emitted l o) -> In (t, n) (opens [(l, o)]).
Proof.
  destruct l; simpl; try tauto; destruct o; simpl; try tauto.
  - intros [H|[]]. inversion H. left. reflexivity.
  - intros [H|[]]. discriminate.
Qed.

(** what the main process believes open, and what is still on its way, has been issued by the child *)
Lemma view_issued : forall ls,
  (forall t n, In (t, n) (mopen (sfinal ls)) -> In (t, n) (opens (ctrace ls))) /\
  (forall t n, In (MStart t n) (evq (sfinal ls)) -> In (t, n) (opens (ctrace ls))).
Proof.
  induction ls using rev_ind; [split; intros ? ? []|].
  destruct IHls as [IH1 IH2]. rewrite sfinal_snoc, ctrace_snoc.
  assert (Hmono : forall t n extra, In (t, n) (opens (ctrace ls)) -> In (t, n) (opens (ctrace ls ++ extra))).
  { intros. rewrite opens_app. apply in_or_app. auto. }
  destruct x as [l'| |c]; simpl.
  - destruct l' as [c0| |t0|t0|t0|t0]; [simpl; rewrite app_nil_r; split; assumption|..];
      (simpl; split;
       [intros; apply Hmono; eauto
       |intros t n H; apply in_app_or in H; destruct H as [H|H];
        [apply Hmono; eauto|rewrite opens_app; apply in_or_app; right; apply opens_emitted; exact H]]).
  - destruct (evq (sfinal ls)) as [|e r] eqn:E; simpl; rewrite app_nil_r;
      [split; [assumption|intros t n H; rewrite ?E in H; try contradiction; eauto]|].
    split.
    + intros t n H. destruct e as [t0 n0|t0 n0]; simpl in H.
      * destruct H as [H|H]; [inversion H; subst; apply IH2; left; reflexivity|auto].
      * apply in_remove_pair in H. auto.
    + intros t n H. apply IH2. right. assumption.
  - destruct (mem (c_trace c, c_prompt c) (mopen (sfinal ls))); simpl.
    + split; intros; apply Hmono; eauto.
    + rewrite app_nil_r. split; assumption.
Qed.

Lemma split_snoc {A} (pre : list A) x post tr e :
  pre ++ x :: post = tr ++ [e] ->
  (post = [] /\ pre = tr /\ x = e) \/ (exists post', post = post' ++ [e] /\ tr = pre ++ x :: post').
Proof.
  intros H. destruct (@exists_last _ (x :: post)) as (l' & y & E); [discriminate|].
  destruct post as [|p post].
  - left. change (pre ++ [x]) with (pre ++ [x]) in H. apply app_inj_tail in H. tauto.
  - right. destruct (@exists_last _ (p :: post)) as (q & z & E2); [discriminate|].
    rewrite E2 in H. rewrite app_comm_cons, app_assoc in H. apply app_inj_tail in H. destruct H as [H1 H2]. subst z.
    exists q. split; [assumption|]. rewrite <- H1. reflexivity.
Qed.

Lemma sent_issued_snoc tr l o :
  sent_issued tr -> (forall c, l = Send c -> In (c_trace c, c_prompt c) (opens tr)) -> sent_issued (tr ++ [(l, o)]).
Proof.
  intros H Hl pre c o' post E. symmetry in E. destruct (split_snoc _ _ _ _ _ E) as [(-> & -> & Ex)|(post' & -> & ->)].
  - inversion Ex; subst. apply Hl. reflexivity.
  - eapply H. reflexivity.
Qed.

(** (a) in the composed system every command put into queue_in is addressed to
    a prompt the child has already issued *)
Theorem system_sent_issued : forall ls, sent_issued (ctrace ls).
Proof.
  induction ls using rev_ind; [intros pre c o post E; destruct pre; discriminate|].
  rewrite ctrace_snoc. destruct x as [l'| |c]; simpl.
  - destruct l'; try (apply sent_issued_snoc; [assumption|intros; discriminate]). rewrite app_nil_r. assumption.
  - rewrite app_nil_r. assumption.
  - destruct (mem (c_trace c, c_prompt c) (mopen (sfinal ls))) eqn:E; [|rewrite app_nil_r; assumption].
    apply sent_issued_snoc; [assumption|]. intros c0 H. inversion H; subst c0.
    apply (proj1 (view_issued ls)). apply mem_true. assumption.
Qed.

Lemma nth_sends_split : forall tr i c, nth_error (sends tr) i = Some c ->
  exists p1 o p2, tr = p1 ++ (Send c, o) :: p2.
Proof.
  induction tr as [|[l o] tr IH]; intros i c H; [destruct i; discriminate|].
  assert (Hrec : forall i, nth_error (sends tr) i = Some c -> exists p1 o' p2, (l, o) :: tr = p1 ++ (Send c, o') :: p2).
  { intros j Hj. destruct (IH _ _ Hj) as (p1 & o' & p2 & ->). exists ((l, o) :: p1), o', p2. reflexivity. }
  destruct l; simpl in H; eauto.
  destruct i; simpl in H; [inversion H; subst; exists [], o, tr; reflexivity|eauto].
Qed.

Lemma relay_out_inv s i : snd (step s Relay) = ORelayed i -> exists c r, s_in s = (i, c) :: r.
Proof.
  simpl. destruct (s_in s) as [|[j c] r]; [discriminate|].
  destruct (s_map s (c_trace c)); simpl; intros H; inversion H; subst; eauto.
Qed.

(** child level: if only commands for issued prompts are sent, only such commands are queued *)
Theorem sent_issued_no_future : forall ls, sent_issued (trace ls) -> no_future_queued (trace ls).
Proof.
  intros ls SI pre i post c E Hn.
  destruct (trace_split _ _ _ _ _ _ E) as (l1 & l2 & Hls & Hpre & Ho & _).
  symmetry in Ho. apply relay_out_inv in Ho. destruct Ho as (c' & r & Hin). fold (final l1) in Hin. fold (trace l1) in Hpre.
  pose proof (Inv_reach l1) as I1.
  assert (Hc' : nth_error (sends (trace l1)) i = Some c') by (apply (i_in_nth _ _ I1); rewrite Hin; left; reflexivity).
  assert (c' = c).
  { rewrite E, sends_app, Hpre in Hn. rewrite (nth_error_app_some _ _ _ _ Hc') in Hn. congruence. }
  subst c'. destruct (nth_sends_split _ _ _ Hc') as (p1 & o & p2 & Hsplit).
  assert (Hop : In (c_trace c, c_prompt c) (opens p1)).
  { eapply SI. rewrite E, Hpre, Hsplit, <- app_assoc. reflexivity. }
  assert (Hop1 : In (c_trace c, c_prompt c) (opens (trace l1))) by (rewrite Hsplit, opens_app; apply in_or_app; auto).
  pose proof (i_opens_lt _ _ I1 _ _ Hop1) as Hlt. rewrite (proj1 (ctr_opens l1)) in Hlt. rewrite Hpre. exact Hlt.
Qed.

Theorem system_no_future_queued : forall ls, no_future_queued (ctrace ls).
Proof. intros ls. apply sent_issued_no_future. apply system_sent_issued. Qed.

(** ---- the main process' view *)

Lemma seen_open_final : forall ls, mopen (sfinal ls) = seen_open (strace ls).
Proof.
  induction ls using rev_ind; [reflexivity|].
  rewrite sfinal_snoc, strace_snoc. unfold seen_open. rewrite fold_left_app. fold (seen_open (strace ls)). rewrite <- IHls.
  destruct x as [l'| |c]; simpl.
  - destruct l'; reflexivity.
  - destruct (evq (sfinal ls)); reflexivity.
  - destruct (mem (c_trace c, c_prompt c) (mopen (sfinal ls))); reflexivity.
Qed.

Lemma strace_split : forall ls s pre l o post,
  strace_from s ls = pre ++ (l, o) :: post ->
  exists l1 l2, ls = l1 ++ l :: l2 /\ pre = strace_from s l1 /\ o = snd (sstep (sexec_from s l1) l).
Proof.
  induction ls as [|a ls IH]; intros s pre l o post H.
  - destruct pre; discriminate.
  - destruct pre as [|e pre]; simpl in H.
    + inversion H; subst. exists [], ls. repeat split.
    + inversion H; subst. destruct (IH _ _ _ _ _ H2) as (l1 & l2 & -> & -> & ->).
      exists (a :: l1), l2. repeat split.
Qed.

(** what happens to an API call *)
Lemma api_cases : forall ls pre c o post,
  strace ls = pre ++ (SApi c, o) :: post ->
  exists l1 l2, ls = l1 ++ SApi c :: l2 /\ pre = strace l1 /\
    ((o = SDropped /\ mem (c_trace c, c_prompt c) (seen_open pre) = false /\ sproj ls = sproj l1 ++ sproj_from (sfinal l1) l2) \/
     (exists i, o = SForwarded i /\ mem (c_trace c, c_prompt c) (seen_open pre) = true /\
                exists rest, ctrace ls = ctrace l1 ++ (Send c, OSent i) :: rest)).
Proof.
  intros ls pre c o post H. destruct (strace_split _ _ _ _ _ _ H) as (l1 & l2 & Hls & Hpre & Ho).
  exists l1, l2. split; [assumption|]. split; [assumption|].
  fold (sfinal l1) in Ho. fold (strace l1) in Hpre. rewrite Hpre, <- seen_open_final.
  simpl in Ho. destruct (mem (c_trace c, c_prompt c) (mopen (sfinal l1))) eqn:Em.
  - right. exists (s_nsent (ch (sfinal l1))). split; [assumption|]. split; [reflexivity|].
    unfold ctrace. rewrite Hls. unfold sproj. rewrite sproj_from_app. fold (sfinal l1). simpl. rewrite Em. simpl.
    unfold trace. rewrite trace_from_app. fold (final (sproj_from sinit l1)). fold (sproj l1). rewrite <- ch_final.
    simpl. eexists. reflexivity.
  - left. split; [assumption|]. split; [reflexivity|].
    rewrite Hls. unfold sproj. rewrite sproj_from_app. fold (sfinal l1). simpl. rewrite Em. reflexivity.
Qed.

(** (b) full strength at system level: a command sent through the API while the
    prompt it addresses is not open in the child is never executed (it is dropped
    by the main process, or it is stale and discarded by the child) *)
Theorem system_decoys_discarded : forall ls pre c o post,
  strace ls = pre ++ (SApi c, o) :: post ->
  forall l1, pre = strace l1 ->
  open_in (ctrace l1) (c_trace c) <> Some (c_prompt c) ->
  o = SDropped \/ exists i, o = SForwarded i /\ ~ In i (exec_ids (ctrace ls)).
Proof.
  intros ls pre c o post H l1 Hpre Hno.
  destruct (api_cases _ _ _ _ _ H) as (l1' & l2 & Hls & Hpre' & [(Ho & _)|(i & Ho & Hm & rest & Hct)]); [left; assumption|].
  right. exists i. split; [assumption|].
  assert (ctrace l1' = ctrace l1).
  { (* the child history is determined by the system history *)
    assert (G : forall a b, strace a = strace b -> a = b).
    { induction a as [|x a IH] using rev_ind; intros b Hab.
      - destruct b using rev_ind; [reflexivity|]. rewrite strace_snoc in Hab. destruct (strace b); discriminate.
      - destruct b as [|y b _] using rev_ind.
        + rewrite strace_snoc in Hab. destruct (strace a); discriminate.
        + rewrite !strace_snoc in Hab. apply app_inj_tail in Hab. destruct Hab as [H1 H2]. inversion H2; subst.
          rewrite (IH _ H1). reflexivity. }
    rewrite (G l1' l1); [reflexivity|congruence]. }
  rewrite H0 in Hct.
  (* forwarded: main saw the prompt open, so the child had issued it; not open in the child: it is closed *)
  assert (Hiss : In (c_trace c, c_prompt c) (opens (ctrace l1))).
  { apply (proj1 (view_issued l1)). apply mem_true. rewrite seen_open_final, <- Hpre. assumption. }
  destruct (opened_closed_or_open (sproj l1) _ _ Hiss) as [Hc|Hc].
  - eapply (stale_discarded (sproj ls)); [exact Hct|exact Hc].
  - exfalso. apply Hno. unfold ctrace. rewrite (i_open _ _ (Inv_reach (sproj l1))). exact Hc.
Qed.

(** every forwarded command was sent while the main process saw the addressed prompt open *)
Theorem forwarded_seen_open : forall ls pre c i post,
  strace ls = pre ++ (SApi c, SForwarded i) :: post ->
  In (c_trace c, c_prompt c) (seen_open pre).
Proof.
  intros ls pre c i post H.
  destruct (api_cases _ _ _ _ _ H) as (l1 & l2 & _ & _ & [(Ho & _)|(j & _ & Hm & _)]); [discriminate|].
  apply mem_true. assumption.
Qed.
