(** Proofs about the composed system (Prompt/System.v). *)
From NL Require Import Prompt.Model Prompt.Hist Prompt.Spec Prompt.Inv Prompt.Once Prompt.Deliver Prompt.System.
Open Scope Z_scope.

Lemma sexec_from_app : forall a s b, sexec_from s (a ++ b) = sexec_from (sexec_from s a) b.
Proof. induction a; simpl; intros; [reflexivity|apply IHa]. Qed.
Lemma sproj_from_app : forall a s b, sproj_from s (a ++ b) = sproj_from s a ++ sproj_from (sexec_from s a) b.
Proof. induction a; simpl; intros; [reflexivity|rewrite IHa, app_assoc; reflexivity]. Qed.
Lemma strace_from_app : forall a s b, strace_from s (a ++ b) = strace_from s a ++ strace_from (sexec_from s a) b.
Proof. induction a; simpl; intros; [reflexivity|rewrite IHa; reflexivity]. Qed.

Lemma sfinal_snoc ls l : sfinal (ls ++ [l]) = fst (sstep (sfinal ls) l).
Proof. unfold sfinal. rewrite sexec_from_app. reflexivity. Qed.
Lemma sproj_snoc ls l :
  sproj (ls ++ [l]) = sproj ls ++ match child_label (sfinal ls) l with Some l' => [l'] | None => [] end.
Proof. unfold sproj, sfinal. rewrite sproj_from_app. simpl. rewrite app_nil_r. reflexivity. Qed.
Lemma strace_snoc ls l : strace (ls ++ [l]) = strace ls ++ [(l, snd (sstep (sfinal ls) l))].
Proof. unfold strace, sfinal. rewrite strace_from_app. reflexivity. Qed.

Lemma ch_step s l :
  ch (fst (sstep s l)) = match child_label s l with Some l' => fst (step (ch s) l') | None => ch s end.
Proof.
  destruct l as [l'| |c]; simpl.
  - destruct l'; reflexivity.
  - destruct (evq s); reflexivity.
  - destruct (mem (c_trace c, c_prompt c) (mopen s)); reflexivity.
Qed.

Lemma ch_final : forall ls, ch (sfinal ls) = final (sproj ls).
Proof.
  induction ls using rev_ind; [reflexivity|].
  rewrite sfinal_snoc, sproj_snoc, ch_step, IHls.
  destruct (child_label (sfinal ls) x); [rewrite final_snoc; reflexivity|rewrite app_nil_r; reflexivity].
Qed.

Lemma ctrace_snoc ls l :
  ctrace (ls ++ [l]) = ctrace ls ++ match child_label (sfinal ls) l with
                                    | Some l' => [(l', snd (step (ch (sfinal ls)) l'))] | None => [] end.
Proof.
  unfold ctrace. rewrite sproj_snoc. destruct (child_label (sfinal ls) l).
  - rewrite trace_snoc, ch_final. reflexivity.
  - rewrite !app_nil_r. reflexivity.
Qed.

Lemma mem_true x l : mem x l = true -> In x l.
Proof.
  unfold mem. rewrite existsb_exists. intros (y & Hin & E). unfold pair_eqb in E.
  apply andb_true_iff in E. destruct E as [E1 E2]. apply Z.eqb_eq in E1, E2.
  destruct x, y; simpl in *; subst. assumption.
Qed.

Lemma in_remove_pair x y l : In y (remove_pair x l) -> In y l.
Proof. unfold remove_pair. intros H. apply filter_In in H. tauto. Qed.

Lemma opens_emitted l o t n : In (MStart t n) (emitted l o) -> In (t, n) (opens [(l, o)]).
Proof.
  destruct l; simpl; try tauto; destruct o; simpl; try tauto.
  - intros [H|[]]. inversion H. left. reflexivity.
  - intros [H|[]]. discriminate.
Qed.

(** what the main process believes open, and what is still on its way, has been issued by the child *)
Lemma view_issued : forall ls,
  (forall t n, In (t, n) (mopen (sfinal ls)) -> In (t, n) (opens (ctrace ls))) /\
  (forall t n, In (MStart t n) (evq (sfinal ls)) -> In (t, n) (opens (ctrace ls))).
Proof.
  induction ls using rev_ind; [split; intros ? ? []|].
  destruct IHls as [IH1 IH2]. rewrite sfinal_snoc, ctrace_snoc.
  assert (Hmono : forall t n extra, In (t, n) (opens (ctrace ls)) -> In (t, n) (opens (ctrace ls ++ extra))).
  { intros. rewrite opens_app. apply in_or_app. auto. }
  destruct x as [l'| |c]; simpl.
  - destruct l'; simpl; try (split; intros; apply Hmono; eauto);
      try (split; intros t0 n0 H; [apply Hmono; eauto|];
           apply in_app_or in H; destruct H as [H|H]; [apply Hmono; eauto|];
           rewrite opens_app; apply in_or_app; right; apply opens_emitted; exact H).
    split; intros; rewrite app_nil_r; eauto.
  - destruct (evq (sfinal ls)) as [|e r] eqn:E; simpl; rewrite app_nil_r; [split; assumption|].
    split.
    + intros t n H. destruct e as [t0 n0|t0 n0]; simpl in H.
      * destruct H as [H|H]; [inversion H; subst; apply IH2; left; reflexivity|auto].
      * apply in_remove_pair in H. auto.
    + intros t n H. apply IH2. right. assumption.
  - destruct (mem (c_trace c, c_prompt c) (mopen (sfinal ls))); simpl.
    + split; intros; apply Hmono; eauto.
    + rewrite app_nil_r. split; assumption.
Qed.

Lemma split_snoc {A} (pre : list A) x post tr e :
  pre ++ x :: post = tr ++ [e] ->
  (post = [] /\ pre = tr /\ x = e) \/ (exists post', post = post' ++ [e] /\ tr = pre ++ x :: post').
Proof.
  intros H. destruct (@exists_last _ (x :: post)) as (l' & y & E); [discriminate|].
  destruct post as [|p post].
  - left. change (pre ++ [x]) with (pre ++ [x]) in H. apply app_inj_tail in H. tauto.
  - right. destruct (@exists_last _ (p :: post)) as (q & z & E2); [discriminate|].
    rewrite E2 in H. rewrite app_comm_cons, app_assoc in H. apply app_inj_tail in H. destruct H as [H1 H2]. subst z.
    exists q. split; [assumption|]. rewrite <- H1. reflexivity.
Qed.

Lemma sent_issued_snoc tr l o :
  sent_issued tr -> (forall c, l = Send c -> In (c_trace c, c_prompt c) (opens tr)) -> sent_issued (tr ++ [(l, o)]).
Proof.
  intros H Hl pre c o' post E. destruct (split_snoc _ _ _ _ _ E) as [(-> & -> & Ex)|(post' & -> & ->)].
  - inversion Ex; subst. apply Hl. reflexivity.
  - eapply H. reflexivity.
Qed.

(** (a) in the composed system every command put into queue_in is addressed to
    a prompt the child has already issued *)
Theorem system_sent_issued : forall ls, sent_issued (ctrace ls).
Proof.
  induction ls using rev_ind; [intros pre c o post E; destruct pre; discriminate|].
  rewrite ctrace_snoc. destruct x as [l'| |c]; simpl.
  - destruct l'; try (apply sent_issued_snoc; [assumption|intros; discriminate]). rewrite app_nil_r. assumption.
  - rewrite app_nil_r. assumption.
  - destruct (mem (c_trace c, c_prompt c) (mopen (sfinal ls))) eqn:E; [|rewrite app_nil_r; assumption].
    apply sent_issued_snoc; [assumption|]. intros c0 H. inversion H; subst c0.
    apply (proj1 (view_issued ls)). apply mem_true. assumption.
Qed.
