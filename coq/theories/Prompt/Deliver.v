(** Delivery: a command addressed to the open prompt and present in the
    trace's queue IS executed, after exactly (position + 1) iterations of the
    prompt loop, whatever sits in front of it; nothing else changes. *)
From NL Require Import Prompt.Model Prompt.Hist Prompt.Spec Prompt.Inv Prompt.Once.
Open Scope Z_scope.

(** everything except trace t's own queue and prompt is the same *)
Definition frame (t : Z) (s s' : state) : Prop :=
  s_in s' = s_in s /\ s_ctr s' = s_ctr s /\ s_nsent s' = s_nsent s /\
  forall x, x <> t -> s_map s' x = s_map s x /\ s_open s' x = s_open s x.

Lemma frame_refl t s : frame t s s.
Proof. repeat split; auto. Qed.

Lemma frame_trans t a b c : frame t a b -> frame t b c -> frame t a c.
Proof.
  intros (A1 & A2 & A3 & A4) (B1 & B2 & B3 & B4). repeat split; try congruence;
    destruct (A4 _ H), (B4 _ H); congruence.
Qed.

Definition discard_out (n : Z) (jd : icmd) : out := ODiscard n (fst jd) (snd jd).

Lemma take_run : forall front s t n i c back,
  s_open s t = Some n ->
  s_map s t = Some (front ++ (i, c) :: back) ->
  c_trace c = t -> c_prompt c = n ->
  (forall j d, In (j, d) front -> c_trace d = t /\ c_prompt d <> n) ->
  let k := S (length front) in
  let s' := exec_from s (repeat (Take t) k) in
  map snd (trace_from s (repeat (Take t) k)) = map (discard_out n) front ++ [OExec n i c] /\
  s_open s' t = None /\ s_map s' t = Some back /\ frame t s s'.
Proof.
  induction front as [|[j d] front IH]; intros s t n i c back Ho Hm Ht Hp Hf.
  - assert (E0 : step s (Take t) =
                 (set_open (set_map s (upd (s_map s) t (Some back))) (upd (s_open s) t None), OExec n i c)).
    { simpl. rewrite Ho, Hm. simpl. rewrite Ht, Z.eqb_refl, Hp, Z.eqb_refl. reflexivity. }
    cbn [length repeat trace_from exec_from map app]. rewrite E0. simpl.
    split; [reflexivity|]. unfold upd. rewrite !Z.eqb_refl.
    repeat split; auto; destruct (Z.eqb_spec x t); congruence.
  - destruct (Hf j d (or_introl eq_refl)) as [Hdt Hdp].
    set (s1 := fst (step s (Take t))).
    assert (E1 : step s (Take t) =
                 (set_map s (upd (s_map s) t (Some (front ++ (i, c) :: back))), ODiscard n j d)).
    { simpl. rewrite Ho, Hm. simpl. rewrite Hdt, Z.eqb_refl. simpl.
      destruct (Z.eqb_spec (c_prompt d) n); [contradiction|reflexivity]. }
    assert (Ho1 : s_open s1 t = Some n) by (unfold s1; rewrite E1; exact Ho).
    assert (Hm1 : s_map s1 t = Some (front ++ (i, c) :: back)).
    { unfold s1. rewrite E1. simpl. unfold upd. rewrite Z.eqb_refl. reflexivity. }
    assert (Hf1 : forall j' d', In (j', d') front -> c_trace d' = t /\ c_prompt d' <> n)
      by (intros; apply Hf; right; assumption).
    destruct (IH s1 t n i c back Ho1 Hm1 Ht Hp Hf1) as (A & B & C' & D).
    assert (F1 : frame t s s1).
    { unfold s1. rewrite E1. repeat split; simpl; auto. unfold upd. destruct (Z.eqb_spec x t); congruence. }
    cbn [length repeat trace_from exec_from map]. fold s1.
    split; [|split; [|split]].
    + rewrite E1. cbn [snd app map]. unfold discard_out at 1. simpl. f_equal. exact A.
    + exact B.
    + exact C'.
    + eapply frame_trans; eauto.
Qed.
