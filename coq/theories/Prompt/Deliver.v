(** Delivery: a command addressed to the open prompt and present in the
    trace's queue IS executed, after exactly (position + 1) iterations of the
    prompt loop, whatever sits in front of it; nothing else changes. *)
From NL Require Import Prompt.Model Prompt.Hist Prompt.Spec Prompt.Inv Prompt.Once.
Open Scope Z_scope.

(** everything except trace t's own queue and prompt is the same *)
Definition frame (t : Z) (s s' : state) : Prop :=
  s_in s' = s_in s /\ s_ctr s' = s_ctr s /\ s_nsent s' = s_nsent s /\
  forall x, x <> t -> s_map s' x = s_map s x /\ s_open s' x = s_open s x.

Lemma frame_refl t s : frame t s s.
Proof. repeat split; auto. Qed.

Lemma frame_trans t a b c : frame t a b -> frame t b c -> frame t a c.
Proof.
  intros (A1 & A2 & A3 & A4) (B1 & B2 & B3 & B4). repeat split; try congruence;
    destruct (A4 _ H), (B4 _ H); congruence.
Qed.

Definition discard_out (n : Z) (jd : icmd) : out := ODiscard n (fst jd) (snd jd).

Lemma take_run : forall front s t n i c back,
  s_open s t = Some n ->
  s_map s t = Some (front ++ (i, c) :: back) ->
  c_trace c = t -> c_prompt c = n ->
  (forall j d, In (j, d) front -> c_trace d = t /\ c_prompt d <> n) ->
  let k := S (length front) in
  let s' := exec_from s (repeat (Take t) k) in
  map snd (trace_from s (repeat (Take t) k)) = map (discard_out n) front ++ [OExec n i c] /\
  s_open s' t = None /\ s_map s' t = Some back /\ frame t s s'.
Proof.
  induction front as [|[j d] front IH]; intros s t n i c back Ho Hm Ht Hp Hf.
  - assert (E0 : step s (Take t) =
                 (set_open (set_map s (upd (s_map s) t (Some back))) (upd (s_open s) t None), OExec n i c)).
    { simpl. rewrite Ho, Hm. simpl. rewrite Ht, Z.eqb_refl, Hp, Z.eqb_refl. reflexivity. }
    cbn [length repeat trace_from exec_from map app]. rewrite E0. simpl.
    split; [reflexivity|]. unfold upd. rewrite !Z.eqb_refl.
    split; [reflexivity|]. split; [reflexivity|].
    repeat split; simpl; auto; destruct (Z.eqb_spec x t); congruence.
  - destruct (Hf j d (or_introl eq_refl)) as [Hdt Hdp].
    set (s1 := fst (step s (Take t))).
    assert (E1 : step s (Take t) =
                 (set_map s (upd (s_map s) t (Some (front ++ (i, c) :: back))), ODiscard n j d)).
    { simpl. rewrite Ho, Hm. simpl. rewrite Hdt, Z.eqb_refl. simpl.
      destruct (Z.eqb_spec (c_prompt d) n); [contradiction|reflexivity]. }
    assert (Ho1 : s_open s1 t = Some n) by (unfold s1; rewrite E1; exact Ho).
    assert (Hm1 : s_map s1 t = Some (front ++ (i, c) :: back)).
    { unfold s1. rewrite E1. simpl. unfold upd. rewrite Z.eqb_refl. reflexivity. }
    assert (Hf1 : forall j' d', In (j', d') front -> c_trace d' = t /\ c_prompt d' <> n)
      by (intros j' d' Hin; apply (Hf j' d'); right; assumption).
    destruct (IH s1 t n i c back Ho1 Hm1 Ht Hp Hf1) as (A & B & C' & D).
    assert (F1 : frame t s s1).
    { unfold s1. rewrite E1. repeat split; simpl; auto. unfold upd. destruct (Z.eqb_spec x t); congruence. }
    cbn [length repeat trace_from exec_from map]. fold s1.
    split; [|split; [|split]].
    + rewrite E1. cbn [snd app map]. unfold discard_out at 1. simpl. f_equal. exact A.
    + exact B.
    + exact C'.
    + eapply frame_trans; eauto.
Qed.

(** the same for a reachable state: the trace-number side condition is an invariant *)
Theorem genuine_answer_executed : forall ls t n front i c back,
  s_open (final ls) t = Some n ->
  s_map (final ls) t = Some (front ++ (i, c) :: back) ->
  c_prompt c = n ->
  (forall j d, In (j, d) front -> c_prompt d <> n) ->
  let k := S (length front) in
  let ls' := ls ++ repeat (Take t) k in
  exists tail,
    trace ls' = trace ls ++ tail /\
    map fst tail = repeat (Take t) k /\
    map snd tail = map (discard_out n) front ++ [OExec n i c] /\
    s_open (final ls') t = None /\ s_map (final ls') t = Some back /\
    frame t (final ls) (final ls').
Proof.
  intros ls t n front i c back Ho Hm Hp Hf k ls'.
  pose proof (Inv_reach ls) as I.
  assert (Ht : c_trace c = t).
  { apply (i_q _ _ I t _ i c Hm). apply in_or_app. right. left. reflexivity. }
  assert (Hf' : forall j d, In (j, d) front -> c_trace d = t /\ c_prompt d <> n).
  { intros j d Hin. split; [|eapply Hf; eauto].
    apply (i_q _ _ I t _ j d Hm). apply in_or_app. left. assumption. }
  destruct (take_run front (final ls) t n i c back Ho Hm Ht Hp Hf') as (A & B & C' & D).
  exists (trace_from (final ls) (repeat (Take t) k)).
  unfold ls', trace, final. rewrite trace_from_app, exec_from_app. fold (final ls).
  split; [reflexivity|]. split; [|split; [exact A|split; [exact B|split; [exact C'|exact D]]]].
  clear. generalize (final ls). induction (repeat (Take t) k); intros; simpl; [reflexivity|]. f_equal. apply IHl.
Qed.

(** ---- the prompt counter and the prompts opened, as functions of the history *)

Lemma opens_snoc_other tr l o : (forall t, l <> OpenPrompt t) -> opens (tr ++ [(l, o)]) = opens tr.
Proof.
  intros H. rewrite opens_app. destruct l; simpl; try apply app_nil_r. exfalso. eapply H. reflexivity.
Qed.

Lemma step_ctr_other s l : (forall t, l <> OpenPrompt t) -> s_ctr (fst (step s l)) = s_ctr s.
Proof.
  intros H. destruct l; simpl.
  - reflexivity.
  - destruct (s_in s) as [|[]]; [reflexivity|]. destruct (s_map s (c_trace c)); reflexivity.
  - destruct (s_map s t); reflexivity.
  - destruct (s_map s t); [destruct (s_open s t)|]; reflexivity.
  - exfalso. eapply H. reflexivity.
  - destruct (s_open s t); [|reflexivity]. destruct (s_map s t) as [[|[]]|]; try reflexivity.
    destruct (negb (c_trace c =? t)); [reflexivity|]. destruct (c_prompt c =? z); reflexivity.
Qed.

Lemma ctr_opens : forall ls,
  s_ctr (final ls) = 1 + Z.of_nat (length (opens (trace ls))) /\
  (forall n, 1 <= n < s_ctr (final ls) -> exists t, In (t, n) (opens (trace ls))) /\
  (forall t n, In (t, n) (opens (trace ls)) -> 1 <= n).
Proof.
  induction ls using rev_ind; [split; [reflexivity|split; simpl; intros; [lia|contradiction]]|].
  destruct IHls as (IH1 & IH2 & IH3). rewrite trace_snoc, final_snoc.
  destruct x as [c| |t|t|t|t];
    try (rewrite opens_snoc_other, step_ctr_other by (intros; discriminate); repeat split; assumption).
  cbn -[Z.add Z.of_nat length opens]. destruct (s_map (final ls) t); [destruct (s_open (final ls) t)|];
    cbn -[Z.add Z.of_nat length opens];
    try (rewrite opens_app; cbn -[Z.add Z.of_nat length]; rewrite app_nil_r; repeat split; assumption).
  rewrite opens_app, app_length. cbn -[Z.add Z.of_nat]. split; [lia|]. split.
  - intros n Hn. destruct (Z.eq_dec n (s_ctr (final ls))) as [->|Hne].
    + exists t. apply in_or_app. right. left. reflexivity.
    + destruct (IH2 n) as [t' Ht']; [lia|]. exists t'. apply in_or_app. left. assumption.
  - intros t' n Hin. apply in_app_or in Hin. destruct Hin as [Hin|[Hin|[]]]; [eauto|]. inversion Hin; subst. lia.
Qed.

(** ---- an opened prompt is closed or still open *)

Lemma step_open_other s l :
  (forall t, l <> OpenPrompt t) -> (forall t, l <> Take t) -> s_open (fst (step s l)) = s_open s.
Proof.
  intros H1 H2. destruct l; simpl.
  - reflexivity.
  - destruct (s_in s) as [|[]]; [reflexivity|]. destruct (s_map s (c_trace c)); reflexivity.
  - destruct (s_map s t); reflexivity.
  - destruct (s_map s t); [destruct (s_open s t)|]; reflexivity.
  - exfalso. eapply H1. reflexivity.
  - exfalso. eapply H2. reflexivity.
Qed.

Lemma exec_prompts_snoc_other tr l o : (forall t, l <> Take t) -> exec_prompts (tr ++ [(l, o)]) = exec_prompts tr.
Proof.
  intros H. rewrite exec_prompts_app. destruct l; simpl; try apply app_nil_r. exfalso. eapply H. reflexivity.
Qed.

Lemma opened_closed_or_open : forall ls t n,
  In (t, n) (opens (trace ls)) -> In n (exec_prompts (trace ls)) \/ s_open (final ls) t = Some n.
Proof.
  induction ls using rev_ind; intros t n Hin; [contradiction|].
  rewrite trace_snoc, final_snoc in *. pose proof (Inv_reach ls) as I.
  destruct x as [c| |t0|t0|t0|t0];
    try (rewrite opens_snoc_other in Hin by (intros; discriminate);
         rewrite exec_prompts_snoc_other, step_open_other by (intros; discriminate); auto).
  - (* OpenPrompt *)
    rewrite exec_prompts_snoc_other by (intros; discriminate). rewrite opens_app in Hin. simpl in *.
    destruct (s_map (final ls) t0) eqn:Em; [destruct (s_open (final ls) t0) eqn:Eo|]; simpl in *;
      rewrite ?app_nil_r in Hin; auto.
    apply in_app_or in Hin. destruct Hin as [Hin|[Hin|[]]].
    + destruct (IHls _ _ Hin) as [H|H]; auto. right. unfold upd. destruct (Z.eqb_spec t t0); [congruence|assumption].
    + inversion Hin; subst. right. unfold upd. rewrite Z.eqb_refl. reflexivity.
  - (* Take *)
    rewrite opens_snoc_other in Hin by (intros; discriminate). destruct (IHls _ _ Hin) as [H|H].
    + left. rewrite exec_prompts_app. apply in_or_app. left. assumption.
    + rewrite exec_prompts_app. simpl. destruct (s_open (final ls) t0) as [p|] eqn:Eo; [|simpl; rewrite app_nil_r; auto].
      destruct (s_map (final ls) t0) as [[|[i c] r]|] eqn:Em; try (simpl; rewrite app_nil_r; auto).
      assert (Ht : c_trace c = t0) by (apply (i_q _ _ I t0 _ i c Em); left; reflexivity).
      rewrite Ht, Z.eqb_refl. simpl. destruct (Z.eqb_spec (c_prompt c) p); simpl.
      * destruct (Z.eq_dec t t0) as [->|Hne].
        -- left. apply in_or_app. right. left. unfold exec_prompts. simpl. congruence.
        -- right. unfold upd. destruct (Z.eqb_spec t t0); [contradiction|assumption].
      * rewrite app_nil_r. auto.
Qed.

(** ---- under [no_future_queued]: an answer to an open prompt stays queued *)

Lemma no_future_snoc tr e : no_future_queued (tr ++ [e]) -> no_future_queued tr.
Proof.
  intros H pre i post c E Hn. apply (H pre i (post ++ [e]) c).
  - rewrite E, <- app_assoc. reflexivity.
  - rewrite sends_app. apply nth_error_app_some. assumption.
Qed.

Lemma in_relayed_split : forall tr i, In i (relayed tr) -> exists pre post, tr = pre ++ (Relay, ORelayed i) :: post.
Proof.
  induction tr as [|[l o] tr IH]; simpl; intros i H; [contradiction|].
  assert (Hrec : In i (relayed tr) -> exists pre post, (l, o) :: tr = pre ++ (Relay, ORelayed i) :: post).
  { intros Hin. destruct (IH _ Hin) as (pre & post & ->). exists ((l, o) :: pre), post. reflexivity. }
  destruct l; auto. destruct o; auto. destruct H as [->|H]; auto. exists [], tr. reflexivity.
Qed.

Lemma relayed_number_issued ls i c :
  no_future_queued (trace ls) -> In i (relayed (trace ls)) -> nth_error (sends (trace ls)) i = Some c ->
  c_prompt c < s_ctr (final ls).
Proof.
  intros H Hin Hn. destruct (in_relayed_split _ _ Hin) as (pre & post & E).
  pose proof (H pre i post c E Hn) as Hlt. rewrite (proj1 (ctr_opens ls)), E, opens_app, app_length. lia.
Qed.

Lemma relayed_was_sent ls i : In i (relayed (trace ls)) -> exists c, nth_error (sends (trace ls)) i = Some c.
Proof.
  intros H. pose proof (Inv_reach ls) as I. apply (i_relayed_lt _ _ I) in H.
  assert (Hlt : (i < length (sends (trace ls)))%nat).
  { rewrite <- (i_nsent _ _ I). pose proof (between_le _ _ _ (i_in_sorted _ _ I)). lia. }
  destruct (nth_error (sends (trace ls)) i) eqn:E; eauto. apply nth_error_None in E. lia.
Qed.

Definition holds_answers (tr : list ev) (s : state) : Prop :=
  forall t n i c, s_open s t = Some n -> In i (relayed tr) -> nth_error (sends tr) i = Some c ->
                  c_trace c = t -> c_prompt c = n ->
                  exists q, s_map s t = Some q /\ In (i, c) q.

Lemma retained : forall ls, no_future_queued (trace ls) -> holds_answers (trace ls) (final ls).
Proof.
  induction ls using rev_ind; intros NF; [intros t n i c H; discriminate|].
  rewrite trace_snoc, final_snoc in *.
  pose proof (no_future_snoc _ _ NF) as NF0. specialize (IHls NF0).
  pose proof (Inv_reach ls) as I. set (s := final ls) in *. set (tr := trace ls) in *.
  intros t n i c Ho Hr Hn Ht Hp.
  destruct x as [c0| |t0|t0|t0|t0].
  - (* Send *)
    simpl in *. rewrite relayed_app in Hr. simpl in Hr. rewrite app_nil_r in Hr.
    destruct (relayed_was_sent ls i Hr) as (c' & Hc'). fold tr in Hc'.
    rewrite sends_app in Hn. rewrite (nth_error_app_some _ _ _ _ Hc') in Hn. inversion Hn; subst c'.
    apply (IHls t n i c Ho Hr Hc' Ht Hp).
  - (* Relay *)
    simpl in *. destruct (s_in s) as [|[i0 c0] r] eqn:Ein.
    + simpl in *. rewrite relayed_app, sends_app in *. simpl in *. rewrite app_nil_r in *. eapply IHls; eauto.
    + assert (Hc0 : nth_error (sends tr) i0 = Some c0) by (apply (i_in_nth _ _ I); rewrite Ein; left; reflexivity).
      destruct (s_map s (c_trace c0)) as [q0|] eqn:Em0; simpl in *;
        rewrite relayed_app, sends_app in *; simpl in *; rewrite ?app_nil_r in *.
      * apply in_app_or in Hr. destruct Hr as [Hr|[<-|[]]].
        -- destruct (IHls t n i c Ho Hr Hn Ht Hp) as (q & Hq & Hin). unfold upd.
           destruct (Z.eqb_spec t (c_trace c0)).
           ++ rewrite e, Em0 in Hq. inversion Hq; subst q0. eexists. split; [reflexivity|]. apply in_or_app. auto.
           ++ eauto.
        -- assert (c = c0) by congruence. subst c. unfold upd. rewrite <- Ht, Z.eqb_refl.
           eexists. split; [reflexivity|]. apply in_or_app. right. left. reflexivity.
      * eapply IHls; eauto.
  - (* StartTrace *)
    simpl in *. destruct (s_map s t0) eqn:Em0; simpl in *;
      rewrite relayed_app, sends_app in *; simpl in *; rewrite ?app_nil_r in *; [eapply IHls; eauto|].
    destruct (IHls t n i c Ho Hr Hn Ht Hp) as (q & Hq & Hin). exists q. split; auto.
    unfold upd. destruct (Z.eqb_spec t t0); [congruence|assumption].
  - (* EndTrace *)
    simpl in *. destruct (s_map s t0) eqn:Em0; [destruct (s_open s t0) eqn:Eo0|]; simpl in *;
      rewrite relayed_app, sends_app in *; simpl in *; rewrite ?app_nil_r in *; try solve [eapply IHls; eauto].
    destruct (IHls t n i c Ho Hr Hn Ht Hp) as (q & Hq & Hin). exists q. split; auto.
    unfold upd. destruct (Z.eqb_spec t t0); [congruence|assumption].
  - (* OpenPrompt *)
    simpl in *. destruct (s_map s t0) eqn:Em0; [destruct (s_open s t0) eqn:Eo0|]; simpl in *;
      rewrite relayed_app, sends_app in *; simpl in *; rewrite ?app_nil_r in *; try solve [eapply IHls; eauto].
    unfold upd in Ho. destruct (Z.eqb_spec t t0); [|eapply IHls; eauto].
    inversion Ho; subst. exfalso.
    pose proof (relayed_number_issued ls i c NF0 Hr Hn). fold s in H. lia.
  - (* Take *)
    simpl in *. destruct (s_open s t0) as [p|] eqn:Eo0; simpl in *;
      [|rewrite relayed_app, sends_app in *; simpl in *; rewrite ?app_nil_r in *; eapply IHls; eauto].
    destruct (s_map s t0) as [[|[j d] r]|] eqn:Em0; simpl in *;
      try (rewrite relayed_app, sends_app in *; simpl in *; rewrite ?app_nil_r in *; solve [eapply IHls; eauto]).
    assert (Hd : c_trace d = t0) by (apply (i_q _ _ I t0 _ j d Em0); left; reflexivity).
    rewrite Hd, Z.eqb_refl in *. simpl in *.
    destruct (Z.eqb_spec (c_prompt d) p); simpl in *;
      rewrite relayed_app, sends_app in *; simpl in *; rewrite ?app_nil_r in *.
    + unfold upd in *. destruct (Z.eqb_spec t t0); [discriminate|]. eapply IHls; eauto.
    + destruct (IHls t n i c Ho Hr Hn Ht Hp) as (q & Hq & Hin). unfold upd.
      destruct (Z.eqb_spec t t0); [|eauto].
      rewrite e in Hq, Ho. rewrite Em0 in Hq. inversion Hq; subst q. rewrite Eo0 in Ho. inversion Ho; subst p.
      destruct Hin as [Hin|Hin]; [inversion Hin; subst; contradiction|]. eauto.
Qed.

Lemma first_match : forall (q : list icmd) n i c, In (i, c) q -> c_prompt c = n ->
  exists front j cj back, q = front ++ (j, cj) :: back /\ c_prompt cj = n /\
                          forall j' d, In (j', d) front -> c_prompt d <> n.
Proof.
  induction q as [|[j d] q IH]; intros n i c Hin Hp; [contradiction|].
  destruct (Z.eq_dec (c_prompt d) n) as [E|E].
  - exists [], j, d, q. repeat split; auto.
  - destruct Hin as [Hin|Hin]; [inversion Hin; subst; contradiction|].
    destruct (IH n i c Hin Hp) as (front & j1 & c1 & back & -> & H1 & H2).
    exists ((j, d) :: front), j1, c1, back. repeat split; auto.
    intros j' d' [H|H]; [inversion H; subst; assumption|eauto].
Qed.

(** whole runs, under [no_future_queued]: a prompt that is open and for which an
    answer has been relayed closes after at most (length of its queue) further
    iterations of its loop, by a command carrying exactly its numbers; the
    iterations before only discard commands with other numbers; no other trace
    is touched *)
Theorem answered_prompt_closes : forall ls t n i c,
  no_future_queued (trace ls) ->
  s_open (final ls) t = Some n ->
  In i (relayed (trace ls)) -> nth_error (sends (trace ls)) i = Some c ->
  c_trace c = t -> c_prompt c = n ->
  exists q front j cj back tail,
    s_map (final ls) t = Some q /\ q = front ++ (j, cj) :: back /\
    c_trace cj = t /\ c_prompt cj = n /\ (forall j' d, In (j', d) front -> c_prompt d <> n) /\
    let ls' := ls ++ repeat (Take t) (S (length front)) in
    trace ls' = trace ls ++ tail /\
    map snd tail = map (discard_out n) front ++ [OExec n j cj] /\
    s_open (final ls') t = None /\ In n (exec_prompts (trace ls')) /\
    frame t (final ls) (final ls').
Proof.
  intros ls t n i c NF Ho Hr Hn Ht Hp.
  destruct (retained ls NF t n i c Ho Hr Hn Ht Hp) as (q & Hq & Hin).
  destruct (first_match q n i c Hin Hp) as (front & j & cj & back & E & Hcj & Hfront).
  assert (Htj : c_trace cj = t).
  { apply (i_q _ _ (Inv_reach ls) t q j cj Hq). rewrite E. apply in_or_app. right. left. reflexivity. }
  rewrite E in Hq.
  destruct (genuine_answer_executed ls t n front j cj back Ho Hq Hcj Hfront) as (tail & A & B & C' & D & F & G).
  exists (front ++ (j, cj) :: back), front, j, cj, back, tail.
  split; [exact Hq|]. split; [reflexivity|]. split; [exact Htj|]. split; [exact Hcj|]. split; [exact Hfront|].
  split; [exact A|]. split; [exact C'|]. split; [exact D|]. split; [|exact G].
  rewrite A, exec_prompts_app. apply in_or_app. right.
  clear - B C'. revert B C'. generalize (S (length front)). generalize (map (discard_out n) front).
  induction tail as [|[l o] tail IH]; intros outs k B C'.
  - destruct outs; discriminate.
  - destruct k; [discriminate|]. simpl in B, C'. inversion B; subst l. destruct outs as [|o1 outs]; simpl in C'.
    + inversion C'; subst. left. reflexivity.
    + inversion C'; subst. unfold exec_prompts in *. simpl.
      assert (In n (map (fun e : Z * Z * nat * cmd => snd (fst (fst e))) (execs tail))) by (eapply IH; eauto).
      destruct o1; auto. right. assumption.
Qed.

Lemma nodup_app_disjoint {A} (a b : list A) x : NoDup (a ++ b) -> In x a -> In x b -> False.
Proof.
  induction a as [|y a IH]; simpl; intros Hnd Ha Hb; [contradiction|].
  inversion Hnd; subst. destruct Ha as [->|Ha]; [apply H1; apply in_or_app; auto|eauto].
Qed.

(** under [no_future_queued] every executed command reached its trace's queue
    while the prompt it closes was already open *)
Theorem executed_arrived_while_open : forall ls pre1 i mid t n c post,
  no_future_queued (trace ls) ->
  trace ls = pre1 ++ (Relay, ORelayed i) :: mid ++ (Take t, OExec n i c) :: post ->
  open_in pre1 t = Some n.
Proof.
  intros ls pre1 i mid t n c post NF E.
  assert (E' : trace ls = (pre1 ++ (Relay, ORelayed i) :: mid) ++ (Take t, OExec n i c) :: post)
    by (rewrite E, <- app_assoc; reflexivity).
  destruct (exec_is_addressed _ _ _ _ _ _ _ E') as (Hn & _ & Ht & Hp & _ & _).
  pose proof (NF pre1 i _ c E Hn) as Hlt.
  destruct (trace_prefix _ _ _ _ E) as (l1 & l2 & Hls & Hpre). fold (trace l1) in Hpre.
  destruct (ctr_opens l1) as (C1 & C2 & C3). rewrite <- Hpre in *.
  pose proof (Inv_reach ls) as I.
  assert (Hop : In (t, n) (opens (trace ls))).
  { apply (i_execs _ _ I t n i c). rewrite E', execs_app. apply in_or_app. right. left. reflexivity. }
  assert (Hge : 1 <= n) by (destruct (ctr_opens ls) as (_ & _ & G); eauto).
  destruct (C2 n) as (t' & Ht'); [rewrite C1, Hp in *; lia|].
  assert (t' = t).
  { eapply nodup_snd_inj; [apply (i_opens_nodup _ _ I)| |exact Hop].
    rewrite E, opens_app. apply in_or_app. left. assumption. }
  subst t'.
  rewrite Hpre in Ht'. destruct (opened_closed_or_open l1 t n Ht') as [Hc|Hc].
  - exfalso. pose proof (i_exec_prompts _ _ I) as Hnd. rewrite E, exec_prompts_app in Hnd.
    eapply nodup_app_disjoint; [exact Hnd|rewrite Hpre; exact Hc|].
    change ((Relay, ORelayed i) :: mid ++ (Take t, OExec n i c) :: post)
      with ([(Relay, ORelayed i)] ++ mid ++ (Take t, OExec n i c) :: post).
    rewrite !exec_prompts_app. apply in_or_app. right. apply in_or_app. right. left. reflexivity.
  - rewrite Hpre. rewrite (i_open _ _ (Inv_reach l1)). assumption.
Qed.
