(** Delivery: a command addressed to the open prompt and present in the
    trace's queue IS executed, after exactly (position + 1) iterations of the
    prompt loop, whatever sits in front of it; nothing else changes. *)
From NL Require Import Prompt.Model Prompt.Hist Prompt.Spec Prompt.Inv Prompt.Once.
Open Scope Z_scope.

(** everything except trace t's own queue and prompt is the same *)
Definition frame (t : Z) (s s' : state) : Prop :=
  s_in s' = s_in s /\ s_ctr s' = s_ctr s /\ s_nsent s' = s_nsent s /\
  forall x, x <> t -> s_map s' x = s_map s x /\ s_open s' x = s_open s x.

Lemma frame_refl t s : frame t s s.
Proof. repeat split; auto. Qed.

Lemma frame_trans t a b c : frame t a b -> frame t b c -> frame t a c.
Proof.
  intros (A1 & A2 & A3 & A4) (B1 & B2 & B3 & B4). repeat split; try congruence;
    destruct (A4 _ H), (B4 _ H); congruence.
Qed.

Definition discard_out (n : Z) (jd : icmd) : out := ODiscard n (fst jd) (snd jd).

Lemma take_run : forall front s t n i c back,
  s_open s t = Some n ->
  s_map s t = Some (front ++ (i, c) :: back) ->
  c_trace c = t -> c_prompt c = n ->
  (forall j d, In (j, d) front -> c_trace d = t /\ c_prompt d <> n) ->
  let k := S (length front) in
  let s' := exec_from s (repeat (Take t) k) in
  map snd (trace_from s (repeat (Take t) k)) = map (discard_out n) front ++ [OExec n i c] /\
  s_open s' t = None /\ s_map s' t = Some back /\ frame t s s'.
Proof.
  induction front as [|[j d] front IH]; intros s t n i c back Ho Hm Ht Hp Hf.
  - assert (E0 : step s (Take t) =
                 (set_open (set_map s (upd (s_map s) t (Some back))) (upd (s_open s) t None), OExec n i c)).
    { simpl. rewrite Ho, Hm. simpl. rewrite Ht, Z.eqb_refl, Hp, Z.eqb_refl. reflexivity. }
    cbn [length repeat trace_from exec_from map app]. rewrite E0. simpl.
    split; [reflexivity|]. unfold upd. rewrite !Z.eqb_refl.
    split; [reflexivity|]. split; [reflexivity|].
    repeat split; simpl; auto; destruct (Z.eqb_spec x t); congruence.
  - destruct (Hf j d (or_introl eq_refl)) as [Hdt Hdp].
    set (s1 := fst (step s (Take t))).
    assert (E1 : step s (Take t) =
                 (set_map s (upd (s_map s) t (Some (front ++ (i, c) :: back))), ODiscard n j d)).
    { simpl. rewrite Ho, Hm. simpl. rewrite Hdt, Z.eqb_refl. simpl.
      destruct (Z.eqb_spec (c_prompt d) n); [contradiction|reflexivity]. }
    assert (Ho1 : s_open s1 t = Some n) by (unfold s1; rewrite E1; exact Ho).
    assert (Hm1 : s_map s1 t = Some (front ++ (i, c) :: back)).
    { unfold s1. rewrite E1. simpl. unfold upd. rewrite Z.eqb_refl. reflexivity. }
    assert (Hf1 : forall j' d', In (j', d') front -> c_trace d' = t /\ c_prompt d' <> n)
      by (intros j' d' Hin; apply (Hf j' d'); right; assumption).
    destruct (IH s1 t n i c back Ho1 Hm1 Ht Hp Hf1) as (A & B & C' & D).
    assert (F1 : frame t s s1).
    { unfold s1. rewrite E1. repeat split; simpl; auto. unfold upd. destruct (Z.eqb_spec x t); congruence. }
    cbn [length repeat trace_from exec_from map]. fold s1.
    split; [|split; [|split]].
    + rewrite E1. cbn [snd app map]. unfold discard_out at 1. simpl. f_equal. exact A.
    + exact B.
    + exact C'.
    + eapply frame_trans; eauto.
Qed.

(** the same for a reachable state: the trace-number side condition is an invariant *)
Theorem genuine_answer_executed : forall ls t n front i c back,
  s_open (final ls) t = Some n ->
  s_map (final ls) t = Some (front ++ (i, c) :: back) ->
  c_prompt c = n ->
  (forall j d, In (j, d) front -> c_prompt d <> n) ->
  let k := S (length front) in
  let ls' := ls ++ repeat (Take t) k in
  exists tail,
    trace ls' = trace ls ++ tail /\
    map fst tail = repeat (Take t) k /\
    map snd tail = map (discard_out n) front ++ [OExec n i c] /\
    s_open (final ls') t = None /\ s_map (final ls') t = Some back /\
    frame t (final ls) (final ls').
Proof.
  intros ls t n front i c back Ho Hm Hp Hf k ls'.
  pose proof (Inv_reach ls) as I.
  assert (Ht : c_trace c = t).
  { apply (i_q _ _ I t _ i c Hm). apply in_or_app. right. left. reflexivity. }
  assert (Hf' : forall j d, In (j, d) front -> c_trace d = t /\ c_prompt d <> n).
  { intros j d Hin. split; [|eapply Hf; eauto].
    apply (i_q _ _ I t _ j d Hm). apply in_or_app. left. assumption. }
  destruct (take_run front (final ls) t n i c back Ho Hm Ht Hp Hf') as (A & B & C' & D).
  exists (trace_from (final ls) (repeat (Take t) k)).
  unfold ls', trace, final. rewrite trace_from_app, exec_from_app. fold (final ls).
  split; [reflexivity|]. split; [|split; [exact A|split; [exact B|split; [exact C'|exact D]]]].
  clear. generalize (final ls). induction (repeat (Take t) k); intros; simpl; [reflexivity|]. f_equal. apply IHl.
Qed.

(** ---- the prompt counter and the prompts opened, as functions of the history *)

Lemma opens_snoc_other tr l o : (forall t, l <> OpenPrompt t) -> opens (tr ++ [(l, o)]) = opens tr.
Proof.
  intros H. rewrite opens_app. destruct l; simpl; try apply app_nil_r. exfalso. eapply H. reflexivity.
Qed.

Lemma step_ctr_other s l : (forall t, l <> OpenPrompt t) -> s_ctr (fst (step s l)) = s_ctr s.
Proof.
  intros H. destruct l; simpl.
  - reflexivity.
  - destruct (s_in s) as [|[]]; [reflexivity|]. destruct (s_map s (c_trace c)); reflexivity.
  - destruct (s_map s t); reflexivity.
  - destruct (s_map s t); [destruct (s_open s t)|]; reflexivity.
  - exfalso. eapply H. reflexivity.
  - destruct (s_open s t); [|reflexivity]. destruct (s_map s t) as [[|[]]|]; try reflexivity.
    destruct (negb (c_trace c =? t)); [reflexivity|]. destruct (c_prompt c =? z); reflexivity.
Qed.

Lemma ctr_opens : forall ls,
  s_ctr (final ls) = 1 + Z.of_nat (length (opens (trace ls))) /\
  forall n, 1 <= n < s_ctr (final ls) -> exists t, In (t, n) (opens (trace ls)).
Proof.
  induction ls using rev_ind; [split; [reflexivity|simpl; intros; lia]|].
  destruct IHls as [IH1 IH2]. rewrite trace_snoc, final_snoc.
  destruct x as [c| |t|t|t|t];
    try (rewrite opens_snoc_other, step_ctr_other by (intros; discriminate); split; assumption).
  cbn -[Z.add Z.of_nat length opens]. destruct (s_map (final ls) t); [destruct (s_open (final ls) t)|];
    cbn -[Z.add Z.of_nat length opens];
    try (rewrite opens_app; cbn -[Z.add Z.of_nat length]; rewrite app_nil_r; split; assumption).
  rewrite opens_app, app_length. cbn -[Z.add Z.of_nat]. split; [lia|].
  intros n Hn. destruct (Z.eq_dec n (s_ctr (final ls))) as [->|Hne].
  - exists t. apply in_or_app. right. left. reflexivity.
  - destruct (IH2 n) as [t' Ht']; [lia|]. exists t'. apply in_or_app. left. assumption.
Qed.

(** ---- an opened prompt is closed or still open *)

Lemma step_open_other s l :
  (forall t, l <> OpenPrompt t) -> (forall t, l <> Take t) -> s_open (fst (step s l)) = s_open s.
Proof.
  intros H1 H2. destruct l; simpl.
  - reflexivity.
  - destruct (s_in s) as [|[]]; [reflexivity|]. destruct (s_map s (c_trace c)); reflexivity.
  - destruct (s_map s t); reflexivity.
  - destruct (s_map s t); [destruct (s_open s t)|]; reflexivity.
  - exfalso. eapply H1. reflexivity.
  - exfalso. eapply H2. reflexivity.
Qed.

Lemma exec_prompts_snoc_other tr l o : (forall t, l <> Take t) -> exec_prompts (tr ++ [(l, o)]) = exec_prompts tr.
Proof.
  intros H. rewrite exec_prompts_app. destruct l; simpl; try apply app_nil_r. exfalso. eapply H. reflexivity.
Qed.

Lemma opened_closed_or_open : forall ls t n,
  In (t, n) (opens (trace ls)) -> In n (exec_prompts (trace ls)) \/ s_open (final ls) t = Some n.
Proof.
  induction ls using rev_ind; intros t n Hin; [contradiction|].
  rewrite trace_snoc, final_snoc in *. pose proof (Inv_reach ls) as I.
  destruct x as [c| |t0|t0|t0|t0];
    try (rewrite opens_snoc_other in Hin by (intros; discriminate);
         rewrite exec_prompts_snoc_other, step_open_other by (intros; discriminate); auto).
  - (* OpenPrompt *)
    rewrite exec_prompts_snoc_other by (intros; discriminate). rewrite opens_app in Hin. simpl in *.
    destruct (s_map (final ls) t0) eqn:Em; [destruct (s_open (final ls) t0) eqn:Eo|]; simpl in *;
      rewrite ?app_nil_r in Hin; auto.
    apply in_app_or in Hin. destruct Hin as [Hin|[Hin|[]]].
    + destruct (IHls _ _ Hin) as [H|H]; auto. right. unfold upd. destruct (Z.eqb_spec t t0); [congruence|assumption].
    + inversion Hin; subst. right. unfold upd. rewrite Z.eqb_refl. reflexivity.
  - (* Take *)
    rewrite opens_snoc_other in Hin by (intros; discriminate). destruct (IHls _ _ Hin) as [H|H].
    + left. rewrite exec_prompts_app. apply in_or_app. left. assumption.
    + rewrite exec_prompts_app. simpl. destruct (s_open (final ls) t0) as [p|] eqn:Eo; [|simpl; rewrite app_nil_r; auto].
      destruct (s_map (final ls) t0) as [[|[i c] r]|] eqn:Em; try (simpl; rewrite app_nil_r; auto).
      assert (Ht : c_trace c = t0) by (apply (i_q _ _ I t0 _ i c Em); left; reflexivity).
      rewrite Ht, Z.eqb_refl. simpl. destruct (Z.eqb_spec (c_prompt c) p); simpl.
      * destruct (Z.eq_dec t t0) as [->|Hne].
        -- left. apply in_or_app. right. left. unfold exec_prompts. simpl. congruence.
        -- right. unfold upd. destruct (Z.eqb_spec t t0); [contradiction|assumption].
      * rewrite app_nil_r. auto.
Qed.
