(** Invariant of the command path relating the model's state to the observable
    history, and the facts about executed commands that follow from it. *)
From NL Require Import Prompt.Model Prompt.Hist.
Open Scope Z_scope.

(** ---- traces as lists *)

Lemma trace_from_app : forall a s b,
  trace_from s (a ++ b) = trace_from s a ++ trace_from (exec_from s a) b.
Proof. induction a; simpl; intros; [reflexivity | rewrite IHa; reflexivity]. Qed.

Lemma exec_from_app : forall a s b, exec_from s (a ++ b) = exec_from (exec_from s a) b.
Proof. induction a; simpl; intros; [reflexivity | apply IHa]. Qed.

Lemma trace_snoc ls l : trace (ls ++ [l]) = trace ls ++ [(l, snd (step (final ls) l))].
Proof. unfold trace, final. rewrite trace_from_app. reflexivity. Qed.

Lemma final_snoc ls l : final (ls ++ [l]) = fst (step (final ls) l).
Proof. unfold final. rewrite exec_from_app. reflexivity. Qed.

Lemma trace_split : forall ls s pre l o post,
  trace_from s ls = pre ++ (l, o) :: post ->
  exists l1 l2, ls = l1 ++ l :: l2 /\ pre = trace_from s l1 /\
                o = snd (step (exec_from s l1) l) /\
                post = trace_from (fst (step (exec_from s l1) l)) l2.
Proof.
  induction ls as [|a ls IH]; intros s pre l o post H.
  - destruct pre; discriminate.
  - destruct pre as [|e pre]; simpl in H.
    + inversion H; subst. exists [], ls. repeat split.
    + inversion H; subst. destruct (IH _ _ _ _ _ H2) as (l1 & l2 & -> & -> & -> & ->).
      exists (a :: l1), l2. repeat split.
Qed.

Lemma trace_prefix : forall ls s pre post,
  trace_from s ls = pre ++ post -> exists l1 l2, ls = l1 ++ l2 /\ pre = trace_from s l1.
Proof.
  induction ls as [|a ls IH]; intros s pre post H.
  - destruct pre; [|discriminate]. exists [], []. split; reflexivity.
  - destruct pre as [|e pre]; simpl in H.
    + exists [], (a :: ls). split; reflexivity.
    + inversion H; subst. destruct (IH _ _ _ H2) as (l1 & l2 & -> & ->).
      exists (a :: l1), l2. split; reflexivity.
Qed.

(** ---- the history functions distribute over append *)

Lemma sends_app a b : sends (a ++ b) = sends a ++ sends b.
Proof. induction a as [|[[] o] a IH]; simpl; rewrite ?IH; reflexivity. Qed.

Lemma execs_app a b : execs (a ++ b) = execs a ++ execs b.
Proof. induction a as [|[[] []] a IH]; simpl; rewrite ?IH; reflexivity. Qed.

Lemma relayed_app a b : relayed (a ++ b) = relayed a ++ relayed b.
Proof. induction a as [|[[] []] a IH]; simpl; rewrite ?IH; reflexivity. Qed.

Lemma opens_app a b : opens (a ++ b) = opens a ++ opens b.
Proof. induction a as [|[[] []] a IH]; simpl; rewrite ?IH; reflexivity. Qed.

Lemma exec_ids_app a b : exec_ids (a ++ b) = exec_ids a ++ exec_ids b.
Proof. unfold exec_ids. rewrite execs_app, map_app. reflexivity. Qed.

Lemma exec_prompts_app a b : exec_prompts (a ++ b) = exec_prompts a ++ exec_prompts b.
Proof. unfold exec_prompts. rewrite execs_app, map_app. reflexivity. Qed.

Lemma open_in_snoc tr e : open_in (tr ++ [e]) = open_step (open_in tr) e.
Proof. unfold open_in. rewrite fold_left_app. reflexivity. Qed.

Lemma nth_error_app_some {A} (a b : list A) i x : nth_error a i = Some x -> nth_error (a ++ b) i = Some x.
Proof. intros H. rewrite nth_error_app1; auto. apply nth_error_Some. congruence. Qed.

(** ---- strictly increasing tags within [lo, hi) *)

Fixpoint between (lo hi : nat) (q : list icmd) : Prop :=
  match q with
  | [] => (lo <= hi)%nat
  | (i, _) :: r => (lo <= i)%nat /\ between (S i) hi r
  end.

Lemma between_le : forall q lo hi, between lo hi q -> (lo <= hi)%nat.
Proof. induction q as [|[i c] q IH]; simpl; intros; [assumption|]. destruct H. apply IH in H0. lia. Qed.

Lemma between_weaken : forall q lo hi hi', between lo hi q -> (hi <= hi')%nat -> between lo hi' q.
Proof. induction q as [|[i c] q IH]; simpl; intros; [lia|]. destruct H. split; eauto. Qed.

Lemma between_weaken_lo : forall q lo lo' hi, between lo hi q -> (lo' <= lo)%nat -> between lo' hi q.
Proof. destruct q as [|[i c] q]; simpl; intros; [lia|]. destruct H. split; [lia|assumption]. Qed.

Lemma between_snoc : forall q lo hi i c, between lo hi q -> (hi <= i)%nat -> between lo (S i) (q ++ [(i, c)]).
Proof.
  induction q as [|[j d] q IH]; simpl; intros.
  - split; lia.
  - destruct H. split; eauto.
Qed.

Lemma between_in : forall q lo hi i c, between lo hi q -> In (i, c) q -> (lo <= i < hi)%nat.
Proof.
  induction q as [|[j d] q IH]; simpl; intros; [contradiction|].
  destruct H as [H1 H2]. destruct H0 as [E|E].
  - inversion E; subst. apply between_le in H2. lia.
  - specialize (IH _ _ _ _ H2 E). lia.
Qed.

(** tag at the front of queue_in (= number of commands the relay has consumed) *)
Definition front (s : state) : nat :=
  match s_in s with [] => s_nsent s | (i, _) :: _ => i end.

(** ---- the invariant *)

Record Inv (tr : list ev) (s : state) : Prop := {
  i_nsent : s_nsent s = length (sends tr);
  i_in_sorted : between (front s) (s_nsent s) (s_in s);
  i_in_nth : forall i c, In (i, c) (s_in s) -> nth_error (sends tr) i = Some c;
  i_q_sorted : forall t q, s_map s t = Some q -> between 0 (front s) q;
  i_q : forall t q i c, s_map s t = Some q -> In (i, c) q ->
        nth_error (sends tr) i = Some c /\ c_trace c = t /\ In i (relayed tr) /\ ~ In i (exec_ids tr);
  i_open : forall t, open_in tr t = s_open s t;
  i_open_ok : forall t p, s_open s t = Some p ->
        p < s_ctr s /\ s_map s t <> None /\ ~ In p (exec_prompts tr) /\ In (t, p) (opens tr);
  i_open_inj : forall t t' p, s_open s t = Some p -> s_open s t' = Some p -> t = t';
  i_opens_lt : forall t p, In (t, p) (opens tr) -> p < s_ctr s;
  i_opens_nodup : NoDup (map snd (opens tr));
  i_exec_ids : NoDup (exec_ids tr);
  i_exec_prompts : NoDup (exec_prompts tr);
  i_execs : forall t p i c, In (t, p, i, c) (execs tr) ->
        nth_error (sends tr) i = Some c /\ c_trace c = t /\ c_prompt c = p /\
        In i (relayed tr) /\ In (t, p) (opens tr);
  i_relayed_lt : forall i, In i (relayed tr) -> (i < front s)%nat;
  i_no_assert : forall l i, ~ In (l, OAssert i) tr
}.

Lemma Inv_init : Inv [] init.
Proof.
  constructor; simpl; intros; try contradiction; try discriminate; try constructor; auto;
  try (unfold front; simpl; lia).
Qed.

Lemma upd_same {A} (f : Z -> A) k v : upd f k v k = v.
Proof. unfold upd. rewrite Z.eqb_refl. reflexivity. Qed.

Lemma upd_other {A} (f : Z -> A) k v x : x <> k -> upd f k v x = f x.
Proof. unfold upd. intros. destruct (Z.eqb_spec x k); congruence. Qed.

Ltac hist :=
  rewrite ?sends_app, ?execs_app, ?relayed_app, ?opens_app, ?exec_ids_app, ?exec_prompts_app,
          ?open_in_snoc in *; unfold exec_ids, exec_prompts in *; simpl in *;
  rewrite ?app_nil_r, ?map_app in *; simpl in *.

Lemma in_snoc {A} (l : list A) x y : In y (l ++ [x]) <-> In y l \/ y = x.
Proof. rewrite in_app_iff. simpl. intuition. Qed.

Lemma NoDup_snoc {A} (l : list A) x : NoDup l -> ~ In x l -> NoDup (l ++ [x]).
Proof.
  intros. apply NoDup_rev in H. rewrite <- (rev_involutive (l ++ [x])). apply NoDup_rev.
  rewrite rev_app_distr. simpl. constructor; [rewrite <- in_rev; assumption|assumption].
Qed.

Lemma no_assert_snoc (tr : list ev) l o :
  (forall l i, ~ In (l, OAssert i) tr) -> (forall i, o <> OAssert i) ->
  forall l' i, ~ In (l', OAssert i) (tr ++ [(l, o)]).
Proof. intros H Ho l' i Hin. apply in_snoc in Hin. destruct Hin as [Hin|Hin]; [eapply H; eauto|]. inversion Hin. eapply Ho; eauto. Qed.

(** Send *)
Lemma Inv_send tr s c : Inv tr s -> Inv (tr ++ [(Send c, snd (step s (Send c)))]) (fst (step s (Send c))).
Proof.
  intros I. destruct I. simpl.
  assert (Hf : front (mkSt (s_in s ++ [(s_nsent s, c)]) (s_map s) (s_open s) (s_ctr s) (S (s_nsent s))) = front s).
  { unfold front; simpl. destruct (s_in s) as [|[j d] r]; reflexivity. }
  constructor; rewrite ?Hf; simpl; hist; intros.
  - rewrite app_length; simpl. lia.
  - apply between_snoc with (hi := s_nsent s); auto.
  - apply in_snoc in H. destruct H as [H|H].
    + apply nth_error_app_some; auto.
    + inversion H; subst. rewrite i_nsent0. rewrite nth_error_app2, Nat.sub_diag; auto.
  - eauto.
  - destruct (i_q0 _ _ _ _ H H0) as (A & B & C' & D). repeat split; auto. apply nth_error_app_some; auto.
  - apply i_open0.
  - eauto.
  - eauto.
  - eauto.
  - assumption.
  - assumption.
  - assumption.
  - destruct (i_execs0 _ _ _ _ H) as (A & B & C' & D & E). repeat split; auto. apply nth_error_app_some; auto.
  - eauto.
  - apply no_assert_snoc; auto. discriminate.
Qed.

(** events that change none of the history functions *)
Definition silent (e : ev) : Prop :=
  match e with
  | (Send _, _) => False
  | (_, ORelayed _) | (_, OOpened _) | (_, OExec _ _ _) | (_, OAssert _) => False
  | _ => True
  end.

Lemma Inv_silent tr s e : silent e -> Inv tr s -> Inv (tr ++ [e]) s.
Proof.
  intros Hs I. destruct I.
  destruct e as [[] []]; simpl in Hs; try contradiction;
    (constructor; hist; auto; apply no_assert_snoc; auto; discriminate).
Qed.

Lemma front_pop s i c r :
  s_in s = (i, c) :: r -> between (front s) (s_nsent s) (s_in s) ->
  between (front (set_in s r)) (s_nsent s) r /\ (S i <= front (set_in s r))%nat /\ (front s <= i <= front s)%nat.
Proof.
  intros E H. unfold front in *. rewrite E in *. simpl in *. destruct H as [_ H].
  destruct r as [|[j d] r']; simpl in *.
  - repeat split; auto.
  - destruct H. repeat split; auto.
Qed.

(** Relay *)
Lemma Inv_relay tr s : Inv tr s -> Inv (tr ++ [(Relay, snd (step s Relay))]) (fst (step s Relay)).
Proof.
  intros I. simpl. destruct (s_in s) as [|[i c] r] eqn:Ein.
  - simpl. apply Inv_silent; simpl; auto.
  - pose proof (i_in_sorted _ _ I) as Hs. destruct (front_pop _ _ _ _ Ein Hs) as (Hb & Hlt & Hfr).
    destruct (s_map s (c_trace c)) as [q|] eqn:Eq; simpl.
    + (* delivered to the trace's queue *)
      assert (Hfr' : front (set_map (set_in s r) (upd (s_map s) (c_trace c) (Some (q ++ [(i, c)])))) = front (set_in s r)) by reflexivity.
      assert (Hnth : nth_error (sends tr) i = Some c) by (apply (i_in_nth _ _ I); rewrite Ein; left; reflexivity).
      destruct I. constructor; rewrite ?Hfr'; simpl; hist; intros; eauto.
      * apply i_in_nth0. rewrite Ein. right. assumption.
      * unfold upd in H. destruct (Z.eqb_spec t (c_trace c)).
        -- inversion H; subst. apply between_weaken with (hi := S i); auto.
           apply between_snoc with (hi := front s); eauto. lia.
        -- apply between_weaken with (hi := front s); eauto. lia.
      * unfold upd in H. destruct (Z.eqb_spec t (c_trace c)).
        -- inversion H; subst. apply in_snoc in H0. destruct H0 as [H0|H0].
           ++ destruct (i_q0 _ _ _ _ Eq H0) as (A & B & C' & D). repeat split; auto. apply in_snoc; auto.
           ++ inversion H0; subst. repeat split; auto. apply in_snoc; auto.
              intro Hex. apply in_map_iff in Hex. destruct Hex as ([[[t1 p1] i1] c1] & E1 & Hin). simpl in E1. subst i1.
              destruct (i_execs0 _ _ _ _ Hin) as (_ & _ & _ & Hr & _).
              apply i_relayed_lt0 in Hr. lia.
        -- destruct (i_q0 _ _ _ _ H H0) as (A & B & C' & D). repeat split; auto. apply in_snoc; auto.
      * destruct (i_open_ok0 _ _ H) as (A & B & C' & D). repeat split; auto.
        unfold upd. destruct (Z.eqb_spec t (c_trace c)); [discriminate|assumption].
      * destruct (i_execs0 _ _ _ _ H) as (A & B & C' & D & E). repeat split; auto. apply in_snoc; auto.
      * apply in_snoc in H. destruct H as [H|H]; [apply i_relayed_lt0 in H; lia|subst; lia].
      * apply no_assert_snoc; auto. discriminate.
    + (* KeyError: dropped *)
      apply Inv_silent; simpl; auto.
      destruct I. constructor; simpl; intros; eauto.
      * apply i_in_nth0. rewrite Ein. right. assumption.
      * apply between_weaken with (hi := front s); eauto. lia.
      * apply i_relayed_lt0 in H. lia.
Qed.

(** StartTrace *)
Lemma Inv_start tr s t : Inv tr s -> Inv (tr ++ [(StartTrace t, snd (step s (StartTrace t)))]) (fst (step s (StartTrace t))).
Proof.
  intros I. simpl. destruct (s_map s t) eqn:Em; simpl.
  - apply Inv_silent; simpl; auto.
  - apply Inv_silent; simpl; auto.
    destruct I. constructor; simpl; intros; eauto.
    + unfold upd in H. destruct (Z.eqb_spec t0 t); [inversion H; simpl; lia|eauto].
    + unfold upd in H. destruct (Z.eqb_spec t0 t); [inversion H; subst; contradiction|eauto].
    + destruct (i_open_ok0 _ _ H) as (A & B & C' & D). repeat split; auto.
      unfold upd. destruct (Z.eqb_spec t0 t); [discriminate|assumption].
Qed.

(** EndTrace *)
Lemma Inv_end tr s t : Inv tr s -> Inv (tr ++ [(EndTrace t, snd (step s (EndTrace t)))]) (fst (step s (EndTrace t))).
Proof.
  intros I. simpl. destruct (s_map s t) eqn:Em; simpl; [|apply Inv_silent; simpl; auto].
  destruct (s_open s t) eqn:Eo; simpl; apply Inv_silent; simpl; auto.
  destruct I. constructor; simpl; intros; eauto.
  - unfold upd in H. destruct (Z.eqb_spec t0 t); [discriminate|eauto].
  - unfold upd in H. destruct (Z.eqb_spec t0 t); [discriminate|eauto].
  - destruct (i_open_ok0 _ _ H) as (A & B & C' & D). repeat split; auto.
    unfold upd. destruct (Z.eqb_spec t0 t); [congruence|assumption].
Qed.

(** OpenPrompt *)
Lemma Inv_openp tr s t : Inv tr s -> Inv (tr ++ [(OpenPrompt t, snd (step s (OpenPrompt t)))]) (fst (step s (OpenPrompt t))).
Proof.
  intros I. simpl. destruct (s_map s t) eqn:Em; simpl; [|apply Inv_silent; simpl; auto].
  destruct (s_open s t) eqn:Eo; simpl; [apply Inv_silent; simpl; auto|].
  assert (Hex : forall p, In p (exec_prompts tr) -> p < s_ctr s).
  { intros p Hp. unfold exec_prompts in Hp. apply in_map_iff in Hp. destruct Hp as ([[[t1 p1] i1] c1] & E1 & Hin).
    simpl in E1; subst. destruct (i_execs _ _ I _ _ _ _ Hin) as (_ & _ & _ & _ & Ho). eapply i_opens_lt; eauto. }
  destruct I. constructor; simpl; hist; intros; eauto.
  - unfold upd. rewrite i_open0. reflexivity.
  - unfold upd in *. destruct (Z.eqb_spec t0 t).
    + inversion H; subst. repeat split; try lia; try congruence.
      * intro Hin. apply Hex in Hin. lia.
      * apply in_snoc; auto.
    + destruct (i_open_ok0 _ _ H) as (A & B & C' & D). repeat split; auto; try lia. apply in_snoc; auto.
  - unfold upd in *. destruct (Z.eqb_spec t0 t); destruct (Z.eqb_spec t' t); subst; auto.
    + inversion H; subst. apply i_open_ok0 in H0. lia.
    + inversion H0; subst. apply i_open_ok0 in H. lia.
    + eauto.
  - apply in_snoc in H. destruct H as [H|H]; [apply i_opens_lt0 in H; lia|inversion H; lia].
  - apply NoDup_snoc; auto. intro Hin. apply in_map_iff in Hin. destruct Hin as ([t1 p1] & E1 & Hin). simpl in E1; subst.
    apply i_opens_lt0 in Hin. lia.
  - destruct (i_execs0 _ _ _ _ H) as (A & B & C' & D & E). repeat split; auto. apply in_snoc; auto.
  - apply no_assert_snoc; auto. discriminate.
Qed.

(** Take *)
Lemma Inv_take tr s t : Inv tr s -> Inv (tr ++ [(Take t, snd (step s (Take t)))]) (fst (step s (Take t))).
Proof.
  intros I. simpl. destruct (s_open s t) as [p|] eqn:Eo; simpl; [|apply Inv_silent; simpl; auto].
  destruct (s_map s t) as [q|] eqn:Em; simpl; [|apply Inv_silent; simpl; auto].
  destruct q as [|[i c] r]; simpl; [apply Inv_silent; simpl; auto|].
  destruct (i_q _ _ I _ _ i c Em (or_introl eq_refl)) as (Hnth & Htr & Hrel & Hnex).
  pose proof (i_q_sorted _ _ I _ _ Em) as Hsort. simpl in Hsort. destruct Hsort as [_ Hsort].
  assert (Hr : forall i0 c0, In (i0, c0) r -> (i < i0)%nat).
  { intros i0 c0 Hin. pose proof (between_in _ _ _ _ _ Hsort Hin). lia. }
  rewrite Htr, Z.eqb_refl. simpl.
  destruct (Z.eqb_spec (c_prompt c) p) as [Hp|Hp]; simpl.
  - (* executed: the prompt closes *)
    destruct (i_open_ok _ _ I _ _ Eo) as (Hlt & _ & Hnp & Hop).
    destruct I. constructor; simpl; hist; intros; eauto.
    + unfold upd in H. destruct (Z.eqb_spec t0 t); [|eauto].
      inversion H; subst. apply between_weaken_lo with (lo := S i); auto. lia.
    + unfold upd in H. destruct (Z.eqb_spec t0 t).
      * inversion H; subst q. destruct (i_q0 t ((i, c) :: r) i0 c0 Em (or_intror H0)) as (A & B & C' & D).
        subst t0. repeat split; auto. intro Hin. apply in_snoc in Hin. destruct Hin as [Hin|Hin]; [contradiction|].
        apply Hr in H0. lia.
      * destruct (i_q0 _ _ _ _ H H0) as (A & B & C' & D). repeat split; auto.
        intro Hin. apply in_snoc in Hin. destruct Hin as [Hin|Hin]; [contradiction|]. subst i0. congruence.
    + unfold upd. rewrite i_open0. reflexivity.
    + unfold upd in *. destruct (Z.eqb_spec t0 t); [discriminate|].
      destruct (i_open_ok0 _ _ H) as (A & B & C' & D). repeat split; auto.
      intro Hin. apply in_snoc in Hin. destruct Hin as [Hin|Hin]; [contradiction|]. subst p0. apply n. eauto.
    + unfold upd in *. destruct (Z.eqb_spec t0 t); [discriminate|]. destruct (Z.eqb_spec t' t); [discriminate|]. eauto.
    + apply NoDup_snoc; auto.
    + apply NoDup_snoc; auto.
    + apply in_snoc in H. destruct H as [H|H]; [eauto|]. inversion H; subst. repeat split; auto.
    + apply no_assert_snoc; auto. discriminate.
  - (* discarded: the loop continues *)
    apply Inv_silent; simpl; auto.
    destruct I. constructor; simpl; intros; eauto.
    + unfold upd in H. destruct (Z.eqb_spec t0 t); [|eauto].
      inversion H; subst. apply between_weaken_lo with (lo := S i); auto. lia.
    + unfold upd in H. destruct (Z.eqb_spec t0 t); [|eauto].
      inversion H; subst q. subst t0. apply (i_q0 t ((i, c) :: r) i0 c0 Em (or_intror H0)).
    + destruct (i_open_ok0 _ _ H) as (A & B & C' & D). repeat split; auto.
      unfold upd. destruct (Z.eqb_spec t0 t); [discriminate|assumption].
Qed.

Lemma Inv_step tr s l : Inv tr s -> Inv (tr ++ [(l, snd (step s l))]) (fst (step s l)).
Proof.
  destruct l; [apply Inv_send|apply Inv_relay|apply Inv_start|apply Inv_end|apply Inv_openp|apply Inv_take].
Qed.

Theorem Inv_reach : forall ls, Inv (trace ls) (final ls).
Proof.
  induction ls using rev_ind.
  - apply Inv_init.
  - rewrite trace_snoc, final_snoc. apply Inv_step. assumption.
Qed.
