(** The abstract specification of a pub/sub topic ("what the property says"),
    short enough to read in a minute, and the declarative history functions
    used by the theorems.  No queues, no indices, no cache: every live
    subscriber simply has the list of items it is still owed. *)
From NL Require Import PubSub.Model.
Open Scope Z_scope.

Inductive astate := AFresh | AActive | AFinished.

Record asub := mkASub {
  a_last : bool;
  a_cacheopt : bool;
  a_state : astate;
  a_owed : list V;        (* still to be received, in order *)
  a_end : bool            (* the topic ended: Stop once a_owed is consumed *)
}.

Record aspec := mkASpec {
  a_cache : bool;         (* topic created with cache=True *)
  a_since : list V;       (* published in the current lifetime since the last clear *)
  a_ended : bool;
  a_subs : list asub
}.

Definition new_aspec (cache : bool) := mkASpec cache [] false [].

Definition lastl {A} (l : list A) : list A :=
  match rev l with [] => [] | x :: _ => [x] end.

(** what a subscriber that starts now receives before any new item *)
Definition replay (cache : bool) (since : list V) (last copt : bool) : list V :=
  if last then (if cache && copt then since else lastl since) else [].

Definition a_push (v : V) (s : asub) : asub :=
  match a_state s with
  | AActive => mkASub (a_last s) (a_cacheopt s) AActive (a_owed s ++ [v]) (a_end s)
  | _ => s
  end.

Definition a_finish (s : asub) : asub :=
  match a_state s with
  | AActive => mkASub (a_last s) (a_cacheopt s) AActive (a_owed s) true
  | _ => s
  end.

Definition a_done (s : asub) := mkASub (a_last s) (a_cacheopt s) AFinished [] false.

Definition a_next (a : aspec) (s : asub) : asub * out :=
  let s1 :=
    match a_state s with
    | AFresh =>
      if a_ended a then a_done s
      else mkASub (a_last s) (a_cacheopt s) AActive
                  (replay (a_cache a) (a_since a) (a_last s) (a_cacheopt s)) false
    | _ => s
    end in
  match a_state s1 with
  | AActive =>
    match a_owed s1 with
    | v :: r => (mkASub (a_last s1) (a_cacheopt s1) AActive r (a_end s1), OItem v)
    | [] => if a_end s1 then (a_done s1, OStop) else (s1, OBlocked)
    end
  | _ => (s1, OStop)
  end.

Definition astep (a : aspec) (o : op) : aspec * out :=
  match o with
  | Publish v =>
    if a_ended a then (a, OErr)
    else (mkASpec (a_cache a) (a_since a ++ [v]) false (map (a_push v) (a_subs a)), OUnit)
  | Clear => if a_ended a then (a, OErr) else (mkASpec (a_cache a) [] false (a_subs a), OUnit)
  | Close => if a_ended a then (a, OUnit)
             else (mkASpec (a_cache a) (a_since a) true (map a_finish (a_subs a)), OUnit)
  | Latest => (a, match rev (a_since a) with v :: _ => OLatest (Some v) | [] => OErr end)
  | Sub l c => (mkASpec (a_cache a) (a_since a) (a_ended a) (a_subs a ++ [mkASub l c AFresh [] false]),
                OSid (length (a_subs a)))
  | Next s =>
    match nth_error (a_subs a) s with
    | Some sb => let '(sb', o) := a_next a sb in
                 (mkASpec (a_cache a) (a_since a) (a_ended a) (upd (a_subs a) s sb'), o)
    | None => (a, OErr)
    end
  | Leave s =>
    match nth_error (a_subs a) s with
    | Some sb => (mkASpec (a_cache a) (a_since a) (a_ended a) (upd (a_subs a) s (a_done sb)), OUnit)
    | None => (a, OErr)
    end
  end.

Fixpoint arun_from (a : aspec) (ops : list op) : aspec * list out :=
  match ops with
  | [] => (a, [])
  | o :: r => let '(a', x) := astep a o in let '(a'', xs) := arun_from a' r in (a'', x :: xs)
  end.

Definition arun (cache : bool) (ops : list op) : aspec := fst (arun_from (new_aspec cache) ops).
Definition aouts (cache : bool) (ops : list op) : list out := snd (arun_from (new_aspec cache) ops).

(** ---- declarative functions of the history (a list of operations with
         their outputs), used to state the property without any state ---- *)

Definition hist := list (op * out).

(** items a given subscriber obtained through anext() *)
Fixpoint got (h : hist) (s : nat) : list V :=
  match h with
  | [] => []
  | (Next s', OItem v) :: r => if Nat.eqb s s' then v :: got r s else got r s
  | _ :: r => got r s
  end.

(** successful publications, in order *)
Fixpoint pubs (h : hist) : list V :=
  match h with
  | [] => []
  | (Publish v, OUnit) :: r => v :: pubs r
  | _ :: r => pubs r
  end.

(** the history up to (excluding) the end of the topic's lifetime *)
Fixpoint until_close (h : hist) : hist :=
  match h with
  | [] => []
  | (Close, _) :: _ => []
  | x :: r => x :: until_close r
  end.

Definition is_close (x : op * out) : bool := match fst x with Close => true | _ => false end.
Definition has_close (h : hist) : bool := existsb is_close h.

(** items published since the last successful clear *)
Fixpoint since_clear_acc (h : hist) (acc : list V) : list V :=
  match h with
  | [] => acc
  | (Publish v, OUnit) :: r => since_clear_acc r (acc ++ [v])
  | (Clear, OUnit) :: r => since_clear_acc r []
  | _ :: r => since_clear_acc r acc
  end.
Definition since_clear (h : hist) : list V := since_clear_acc h [].

(** split the history at the first anext() of subscriber s
    (OErr: no such generator exists yet) *)
Fixpoint split_start (h : hist) (s : nat) : option (hist * hist) :=
  match h with
  | [] => None
  | (Next s', OErr) :: r =>
    match split_start r s with Some (b, a) => Some ((Next s', OErr) :: b, a) | None => None end
  | (Next s', o) :: r =>
    if Nat.eqb s s' then Some ([], r)
    else match split_start r s with Some (b, a) => Some ((Next s', o) :: b, a) | None => None end
  | x :: r => match split_start r s with Some (b, a) => Some (x :: b, a) | None => None end
  end.

Fixpoint left_sub (h : hist) (s : nat) : bool :=
  match h with
  | [] => false
  | (Leave s', OUnit) :: r => Nat.eqb s s' || left_sub r s
  | _ :: r => left_sub r s
  end.

(** options with which generator number s was created (s-th Sub of the history) *)
Fixpoint sub_opts (h : hist) (s : nat) : option (bool * bool) :=
  match h with
  | [] => None
  | (Sub l c, _) :: r => match s with O => Some (l, c) | S s' => sub_opts r s' end
  | _ :: r => sub_opts r s
  end.

(** THE expected sequence of subscriber s, as a function of the history only:
    nothing if it never started or started after the end; otherwise the
    replay its options ask for, followed by every item published between its
    start and the end of the topic. *)
Definition expected (cache : bool) (h : hist) (s : nat) : list V :=
  match split_start h s, sub_opts h s with
  | Some (before, after), Some (l, c) =>
    if has_close before then []
    else replay cache (since_clear before) l c ++ pubs (until_close after)
  | _, _ => []
  end.
