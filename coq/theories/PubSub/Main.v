(** The property theorems about the *model* of PubSubItem, obtained from the
    refinement (Refine.v) and the theorems about the specification
    (Delivery.v). *)
From NL Require Import PubSub.Model PubSub.Spec PubSub.Refine PubSub.Delivery.
From Coq Require Import Lia.
Open Scope Z_scope.

(** the observable history of a run of the model *)
Definition history (cache : bool) (ops : list op) : hist := combine ops (outs cache ops).

(** what is in flight for subscriber s: old data still to be yielded + its queue *)
Definition owed_of (it : item) (s : nat) : list V :=
  match nth_error (i_subs it) s with
  | Some sb => match s_phase sb with
               | Active => ent_vals (s_pending sb) ++ ent_vals (map snd (s_queue sb))
               | _ => []
               end
  | None => []
  end.

Lemma history_eq cache ops : history cache ops = ahist cache ops.
Proof. unfold history, ahist. rewrite refinement, ahist_combine. reflexivity. Qed.

Lemma ent_vals_End l : ent_vals (map It l ++ [End]) = l.
Proof. rewrite ent_vals_app, ent_vals_map_It. simpl. apply app_nil_r. Qed.

Lemma owed_of_eq it a s :
  R it a ->
  (forall sa, nth_error (a_subs a) s = Some sa -> a_state sa <> AActive -> a_owed sa = []) ->
  owed_of it s = a_owed_of a s.
Proof.
  intros HR Hidle. unfold owed_of, a_owed_of. pose proof (R_subs _ _ HR) as Hsu.
  destruct (nth_error (i_subs it) s) as [sb|] eqn:En.
  - destruct (Forall2_nth_error _ _ _ _ _ Hsu En) as (sa & Ena & (_ & _ & H)). rewrite Ena.
    destruct (s_phase sb) eqn:Ep, (a_state sa) eqn:Ea; try contradiction.
    + symmetry. apply Hidle; congruence.
    + destruct H as (_ & _ & _ & _ & qv & Hq & Ho). rewrite Ho, Hq. f_equal.
      destruct (a_ended a); [apply ent_vals_End | rewrite app_nil_r; apply ent_vals_map_It].
    + symmetry. apply Hidle; congruence.
  - rewrite (Forall2_nth_error_none _ _ _ _ Hsu En). reflexivity.
Qed.

Lemma idle_owed cache ops s sa :
  nth_error (a_subs (arun cache ops)) s = Some sa -> a_state sa <> AActive -> a_owed sa = [].
Proof.
  intros En Hna. destruct (I_subs _ _ _ (spec_Inv cache ops) _ _ En) as (_ & H).
  destruct (a_state sa); [tauto | congruence | tauto].
Qed.

(** C08, delivery: for EVERY operation sequence and every subscriber that has
    not left, what it received so far followed by what is in flight for it is
    exactly the expected sequence determined by the history: (optional
    replay) ++ every item published between its start and the topic's end --
    nothing lost, duplicated or reordered. *)
Theorem model_exact_delivery cache ops s :
  let h := history cache ops in
  left_sub h s = false ->
  got h s ++ owed_of (run cache ops) s = expected cache h s.
Proof.
  intros h Hl. unfold h in *. rewrite history_eq in *.
  rewrite (owed_of_eq _ (arun cache ops)).
  - apply spec_exact_delivery. exact Hl.
  - apply refinement_state.
  - intros sa. apply idle_owed.
Qed.

(** a subscriber that has seen the end has received everything *)
Theorem model_complete_when_finished cache ops s sb :
  let h := history cache ops in
  left_sub h s = false ->
  nth_error (i_subs (run cache ops)) s = Some sb -> s_phase sb = Finished ->
  got h s = expected cache h s.
Proof.
  intros h Hl En Ep. pose proof (model_exact_delivery cache ops s Hl) as H.
  unfold owed_of in H. rewrite En, Ep, app_nil_r in H. exact H.
Qed.

(** C08, latest *)
Theorem model_latest cache ops :
  snd (step (run cache ops) Latest) =
  match rev (since_clear (history cache ops)) with v :: _ => OLatest (Some v) | [] => OErr end.
Proof.
  rewrite history_eq, <- spec_latest.
  pose proof (step_R _ _ Latest (refinement_state cache ops)) as H.
  destruct (step (run cache ops) Latest), (astep (arun cache ops) Latest). simpl. tauto.
Qed.

(** C08, one order *)
Theorem model_one_order cache ops s b af :
  let h := history cache ops in
  split_start h s = Some (b, af) -> has_close b = false ->
  expected cache h s =
    (match sub_opts h s with Some (l, c) => replay cache (since_clear b) l c | None => [] end)
    ++ match sub_opts h s with Some _ => pubs (until_close af) | None => [] end
  /\ exists pre, pubs (until_close h) = pre ++ pubs (until_close af).
Proof.
  intros h Hsp Hb. split.
  - rewrite expected_unfold, Hsp. unfold started_exp. rewrite Hb.
    destruct (sub_opts h s) as [[l c]|]; reflexivity.
  - eapply one_order; eauto.
Qed.

(** ---- termination ---- *)

Lemma arun_from_app a ops ops' :
  arun_from a (ops ++ ops') =
  let '(a', xs) := arun_from a ops in let '(a'', ys) := arun_from a' ops' in (a'', xs ++ ys).
Proof.
  revert a; induction ops as [|o ops IH]; intros a; simpl.
  - destruct (arun_from a ops'). reflexivity.
  - destruct (astep a o) as [a1 x]. rewrite IH.
    destruct (arun_from a1 ops) as [a2 xs]. destruct (arun_from a2 ops') as [a3 ys]. reflexivity.
Qed.

Lemma a_next_ext a a' sa :
  a_cache a' = a_cache a -> a_since a' = a_since a -> a_ended a' = a_ended a ->
  a_next a' sa = a_next a sa.
Proof. intros H1 H2 H3. unfold a_next. rewrite H1, H2, H3. reflexivity. Qed.

Lemma drain_ext a a' sa n :
  a_cache a' = a_cache a -> a_since a' = a_since a -> a_ended a' = a_ended a ->
  drain a' sa n = drain a sa n.
Proof.
  intros H1 H2 H3. revert sa; induction n as [|n IH]; intros sa; simpl; auto.
  rewrite (a_next_ext a a') by assumption. destruct (a_next a sa). rewrite IH. reflexivity.
Qed.

Lemma drain_run n : forall a s sa,
  nth_error (a_subs a) s = Some sa ->
  snd (arun_from a (repeat (Next s) n)) = drain a sa n.
Proof.
  induction n as [|n IH]; intros a s sa En; simpl; auto.
  rewrite En. destruct (a_next a sa) as [sa' o] eqn:Ea.
  match goal with |- context [arun_from ?A _] => set (a' := A) end.
  assert (En' : nth_error (a_subs a') s = Some sa') by (unfold a'; simpl; eapply nth_error_upd_eq; eauto).
  specialize (IH a' s sa' En').
  destruct (arun_from a' (repeat (Next s) n)) as [a'' xs]. simpl in *. rewrite IH.
  f_equal. apply drain_ext; reflexivity.
Qed.

(** C08, clean end: once the topic has ended, a subscriber that keeps
    iterating never blocks and reaches the end of its iteration. *)
Theorem model_termination cache ops s :
  i_closed (run cache ops) = true -> (s < length (i_subs (run cache ops)))%nat ->
  exists n,
    let tail := skipn (length ops) (outs cache (ops ++ repeat (Next s) (S n))) in
    last tail OBlocked = OStop /\ ~ In OBlocked tail.
Proof.
  intros Hcl Hs.
  pose proof (refinement_state cache ops) as HR.
  assert (Hend : a_ended (arun cache ops) = true) by (rewrite <- (R_closed _ _ HR); exact Hcl).
  assert (Hlen : length (a_subs (arun cache ops)) = length (i_subs (run cache ops)))
    by (symmetry; eapply Forall2_length'; apply (R_subs _ _ HR)).
  destruct (nth_error (a_subs (arun cache ops)) s) as [sa|] eqn:En.
  2:{ apply nth_error_None in En. lia. }
  destruct (spec_termination cache ops s sa Hend En) as (n & Hlast & Hnb).
  exists n. cbv zeta. rewrite refinement. unfold aouts. rewrite arun_from_app.
  unfold arun in *. destruct (arun_from (new_aspec cache) ops) as [a xs] eqn:Er. cbn [fst snd] in *.
  pose proof (drain_run (S n) a s sa En) as Hd.
  destruct (arun_from a (repeat (Next s) (S n))) as [a'' ys]. cbn [fst snd] in *.
  assert (Hxs : length xs = length ops).
  { pose proof (ahist_combine (new_aspec cache) ops) as Hc. rewrite Er in Hc. simpl in Hc.
    clear - Er. revert xs a Er. generalize (new_aspec cache).
    induction ops as [|o ops IH]; intros a0 xs a Er; simpl in Er.
    - inversion Er; reflexivity.
    - destruct (astep a0 o) as [a1 x]. destruct (arun_from a1 ops) as [a2 xs'] eqn:E2.
      inversion Er; subst. simpl. f_equal. eapply IH; eauto. }
  rewrite <- Hxs, skipn_app, skipn_all, Nat.sub_diag. cbn [skipn app].
  rewrite Hd. split; assumption.
Qed.
