(** An interpreter for the syntax of PubSub/Syntax.v (the fragment of Python used by
    nextline/utils/pubsub/item.py), and the operations of a PubSubItem obtained by
    running the REGENERATED method bodies of Gen/PubSubFuns.v through it.

    Definitions only (proofs: PubSub/Tie.v).

    State.  The attributes of the object are the fields of [pstate]; `_queues` is an
    explicit list of queue identities (a queue is identified with the generator that
    created it).  A generator object of `subscribe()` is a [gen]: the arguments of the
    call, its status -- not started / suspended with the REST OF ITS BODY still to run /
    finished --, its local variables and the content of its asyncio.Queue.
    PubSub/Tie.v maps this state onto the record [item] of PubSub/Model.v. *)
From NL Require Import PubSub.Model PubSub.Syntax Gen.PubSubFuns.
Open Scope Z_scope.

(** ---- values ---- *)

Inductive value :=
| VNone
| VBool (b : bool)
| VInt (z : Z)
| VEnt (e : option ent)            (* Some (It v): a published item; Some End: _END; None: _START *)
| VPair (z : Z) (e : option ent)   (* (index, item-or-sentinel) *)
| VEnums (l : list enumd)          (* a list object nobody else holds (a copy / a new list) *)
| VQueueList (l : list nat)        (* a private copy of `_queues` *)
| VLive (a : attr)                 (* the list object held in self._<a> itself *)
| VQueue (s : nat)                 (* the asyncio.Queue created by generator s *)
| VUnbound.

Definition env := string -> value.
Definition env0 : env := fun _ => VUnbound.
Definition set (en : env) (x : string) (v : value) : env :=
  fun y => if String.eqb x y then v else en y.

(** ---- state ---- *)

Inductive gstatus := GFresh | GSusp (k : stmt) | GDone.

Record gen := mkGen {
  g_last : bool; g_cache : bool;     (* arguments of the subscribe() call *)
  g_status : gstatus;
  g_env : env;
  g_queue : list enumd
}.

Record pstate := mkP {
  p_cache : option (list enumd);
  p_idx : Z;
  p_last_enum : Z * option ent;
  p_last_item : option V;
  p_closed : bool;
  p_queues : list nat;               (* self._queues, in registration order *)
  p_gens : list gen                  (* every generator object created, in creation order *)
}.

Definition get_queue (ps : pstate) (n : nat) : option (list enumd) :=
  option_map g_queue (nth_error (p_gens ps) n).

Definition with_gens (ps : pstate) (l : list gen) : pstate :=
  mkP (p_cache ps) (p_idx ps) (p_last_enum ps) (p_last_item ps) (p_closed ps) (p_queues ps) l.

Definition gen_set_queue (g : gen) (q : list enumd) : gen :=
  mkGen (g_last g) (g_cache g) (g_status g) (g_env g) q.

Definition set_queue (ps : pstate) (n : nat) (q : list enumd) : pstate :=
  match nth_error (p_gens ps) n with
  | Some g => with_gens ps (upd (p_gens ps) n (gen_set_queue g q))
  | None => ps
  end.

Definition with_queues (ps : pstate) (l : list nat) : pstate :=
  mkP (p_cache ps) (p_idx ps) (p_last_enum ps) (p_last_item ps) (p_closed ps) l (p_gens ps).

Definition with_cache (ps : pstate) (c : option (list enumd)) : pstate :=
  mkP c (p_idx ps) (p_last_enum ps) (p_last_item ps) (p_closed ps) (p_queues ps) (p_gens ps).

(** ---- expressions ---- *)

Definition nonempty {A} (l : list A) : bool := match l with [] => false | _ => true end.

Definition attr_val (ps : pstate) (a : attr) : value :=
  match a with
  | ACache => match p_cache ps with Some _ => VLive ACache | None => VNone end
  | AQueues => VLive AQueues
  | ALastEnum => VPair (fst (p_last_enum ps)) (snd (p_last_enum ps))
  | ALastItem => VEnt (option_map It (p_last_item ps))
  | AIdx => VInt (p_idx ps)
  | AClosed => VBool (p_closed ps)
  end.

(** bool(v); None where Python's answer depends on something that is not modelled
    (the truth value of a user item) *)
Definition truthy (ps : pstate) (v : value) : option bool :=
  match v with
  | VNone => Some false
  | VBool b => Some b
  | VInt z => Some (negb (Z.eqb z 0))
  | VEnums l => Some (nonempty l)
  | VQueueList l => Some (nonempty l)
  | VLive ACache => option_map nonempty (p_cache ps)
  | VLive AQueues => Some (nonempty (p_queues ps))
  | VPair _ _ => Some true
  | _ => None
  end.

(** the three objects compared by identity in the code: None, _START, _END *)
Definition singleton (v : value) : option nat :=
  match v with
  | VNone => Some 0%nat
  | VEnt None => Some 1%nat
  | VEnt (Some End) => Some 2%nat
  | _ => None
  end.

(** `a is b`; None where it is not determined (two user items; a user item against None) *)
Definition is_same (a b : value) : option bool :=
  match a, b with
  | VUnbound, _ | _, VUnbound => None
  | _, _ =>
    match singleton a, singleton b with
    | Some x, Some y => Some (Nat.eqb x y)
    | Some 0%nat, None => match b with VEnt _ => None | _ => Some false end
    | None, Some 0%nat => match a with VEnt _ => None | _ => Some false end
    | Some _, None | None, Some _ => Some false
    | None, None => None
    end
  end.

Section Eval.
Variable me : nat.        (* the generator on whose behalf the code runs *)

Fixpoint eval (ps : pstate) (en : env) (e : expr) : option value :=
  match e with
  | ENone => Some VNone
  | EBool b => Some (VBool b)
  | EInt z => Some (VInt z)
  | EEnd => Some (VEnt (Some End))
  | EStart => Some (VEnt None)
  | EVar x => match en x with VUnbound => None | v => Some v end
  | EAttr a => Some (attr_val ps a)
  | ETuple a b =>
    match eval ps en a, eval ps en b with
    | Some (VInt z), Some (VEnt oe) => Some (VPair z oe)
    | _, _ => None
    end
  | ECopy a =>
    match eval ps en a with
    | Some (VLive ACache) => option_map VEnums (p_cache ps)
    | Some (VLive AQueues) => Some (VQueueList (p_queues ps))
    | Some (VEnums l) => Some (VEnums l)
    | Some (VQueueList l) => Some (VQueueList l)
    | _ => None
    end
  | ENewList => Some (VEnums [])
  | ENewQueue => Some (VQueue me)
  | EIs a b =>
    match eval ps en a, eval ps en b with
    | Some va, Some vb => option_map VBool (is_same va vb)
    | _, _ => None
    end
  | EIsNot a b =>
    match eval ps en a, eval ps en b with
    | Some va, Some vb => option_map (fun x => VBool (negb x)) (is_same va vb)
    | _, _ => None
    end
  | ELt a b =>
    match eval ps en a, eval ps en b with
    | Some (VInt x), Some (VInt y) => Some (VBool (Z.ltb x y))
    | _, _ => None
    end
  | ELe a b =>
    match eval ps en a, eval ps en b with
    | Some (VInt x), Some (VInt y) => Some (VBool (Z.leb x y))
    | _, _ => None
    end
  | EAdd a b =>
    match eval ps en a, eval ps en b with
    | Some (VInt x), Some (VInt y) => Some (VInt (x + y))
    | _, _ => None
    end
  | ENot a =>
    match eval ps en a with
    | Some va => option_map (fun x => VBool (negb x)) (truthy ps va)
    | None => None
    end
  | EAnd a b =>
    match eval ps en a with
    | Some va => match truthy ps va with
                 | Some true => eval ps en b
                 | Some false => Some va
                 | None => None
                 end
    | None => None
    end
  | EOr a b =>
    match eval ps en a with
    | Some va => match truthy ps va with
                 | Some true => Some va
                 | Some false => eval ps en b
                 | None => None
                 end
    | None => None
    end
  | EIfExp c t f =>
    match eval ps en c with
    | Some vc => match truthy ps vc with
                 | Some true => eval ps en t
                 | Some false => eval ps en f
                 | None => None
                 end
    | None => None
    end
  end.

Definition cond (ps : pstate) (en : env) (c : expr) : option bool :=
  match eval ps en c with Some v => truthy ps v | None => None end.

End Eval.

(** ---- assignment ---- *)

Definition set_attr (ps : pstate) (a : attr) (v : value) : option pstate :=
  match a, v with
  | ACache, VNone => Some (with_cache ps None)
  | ACache, VEnums [] => Some (with_cache ps (Some []))
  | AQueues, VEnums [] => Some (with_queues ps [])
  | ALastEnum, VPair z oe =>
    Some (mkP (p_cache ps) (p_idx ps) (z, oe) (p_last_item ps) (p_closed ps) (p_queues ps) (p_gens ps))
  | ALastItem, VEnt None =>
    Some (mkP (p_cache ps) (p_idx ps) (p_last_enum ps) None (p_closed ps) (p_queues ps) (p_gens ps))
  | ALastItem, VEnt (Some (It x)) =>
    Some (mkP (p_cache ps) (p_idx ps) (p_last_enum ps) (Some x) (p_closed ps) (p_queues ps) (p_gens ps))
  | AIdx, VInt z =>
    Some (mkP (p_cache ps) z (p_last_enum ps) (p_last_item ps) (p_closed ps) (p_queues ps) (p_gens ps))
  | AClosed, VBool b =>
    Some (mkP (p_cache ps) (p_idx ps) (p_last_enum ps) (p_last_item ps) b (p_queues ps) (p_gens ps))
  | _, _ => None
  end.

Definition assign1 (t : target) (v : value) (ps : pstate) (en : env) : option (pstate * env) :=
  match t with
  | TVar x => Some (ps, set en x v)
  | TAttr a => match set_attr ps a v with Some ps' => Some (ps', en) | None => None end
  | TPair x y => match v with
                 | VPair z oe => Some (ps, set (set en x (VInt z)) y (VEnt oe))
                 | _ => None
                 end
  end.

Fixpoint assign_all (ts : list target) (v : value) (ps : pstate) (en : env) : option (pstate * env) :=
  match ts with
  | [] => Some (ps, en)
  | t :: r => match assign1 t v ps en with
              | Some (ps', en') => assign_all r v ps' en'
              | None => None
              end
  end.

(** ---- statements ---- *)

Inductive result :=
| RNorm (ps : pstate) (en : env)
| RYield (v : value) (k : stmt) (ps : pstate) (en : env)   (* suspended at a yield; k = the rest *)
| RBlock (k : stmt) (ps : pstate) (en : env)               (* suspended in `await q.get()` *)
| RRet (v : value) (ps : pstate) (en : env)
| RBrk (ps : pstate) (en : env)
| RRaise (ps : pstate) (en : env)
| RStuck.                                                  (* outside the modelled fragment *)

Fixpoint remove_first (n : nat) (l : list nat) : option (list nat) :=
  match l with
  | [] => None
  | x :: r => if Nat.eqb n x then Some r
              else match remove_first n r with Some r' => Some (x :: r') | None => None end
  end.

Definition live_nth (ps : pstate) (a : attr) (pos : nat) : option enumd :=
  match a with
  | ACache => match p_cache ps with Some l => nth_error l pos | None => None end
  | _ => None
  end.

(** for x, y in <a private list>: ... *)
Fixpoint for2_list (run : pstate -> env -> result) (x y : string) (body : stmt)
         (l : list enumd) (ps : pstate) (en : env) : result :=
  match l with
  | [] => RNorm ps en
  | (i, e) :: r =>
    match run ps (set (set en x (VInt i)) y (VEnt (Some e))) with
    | RNorm ps' en' => for2_list run x y body r ps' en'
    | RBrk ps' en' => RNorm ps' en'
    | RYield v k ps' en' => RYield v (SFor2Run k x y (CList r) body) ps' en'
    | RBlock k ps' en' => RBlock (SFor2Run k x y (CList r) body) ps' en'
    | r' => r'
    end
  end.

(** for x, y in <the live list self._a>: the list iterator re-reads the list at its position *)
Fixpoint for2_live (run : pstate -> env -> result) (x y : string) (body : stmt)
         (a : attr) (fuel : nat) (pos : nat) (ps : pstate) (en : env) : result :=
  match fuel with
  | O => RStuck
  | S fuel' =>
    match live_nth ps a pos with
    | None => RNorm ps en
    | Some (i, e) =>
      match run ps (set (set en x (VInt i)) y (VEnt (Some e))) with
      | RNorm ps' en' => for2_live run x y body a fuel' (S pos) ps' en'
      | RBrk ps' en' => RNorm ps' en'
      | RYield v k ps' en' => RYield v (SFor2Run k x y (CLive a (S pos)) body) ps' en'
      | RBlock k ps' en' => RBlock (SFor2Run k x y (CLive a (S pos)) body) ps' en'
      | r' => r'
      end
    end
  end.

(** for x in <a private copy of _queues>: ...   (no suspension inside) *)
Fixpoint for1_list (run : pstate -> env -> result) (x : string)
         (l : list nat) (ps : pstate) (en : env) : result :=
  match l with
  | [] => RNorm ps en
  | n :: r =>
    match run ps (set en x (VQueue n)) with
    | RNorm ps' en' => for1_list run x r ps' en'
    | RBrk ps' en' => RNorm ps' en'
    | RYield _ _ _ _ | RBlock _ _ _ => RStuck
    | r' => r'
    end
  end.

Fixpoint while_loop (run : pstate -> env -> result) (body : stmt)
         (fuel : nat) (ps : pstate) (en : env) : result :=
  match fuel with
  | O => RStuck
  | S fuel' =>
    match run ps en with
    | RNorm ps' en' => while_loop run body fuel' ps' en'
    | RBrk ps' en' => RNorm ps' en'
    | RYield v k ps' en' => RYield v (SWhileRun k body) ps' en'
    | RBlock k ps' en' => RBlock (SWhileRun k body) ps' en'
    | r' => r'
    end
  end.

(** the `finally` clause has run; [r0] is how the `try` body ended *)
Definition after_fin (r0 rf : result) : result :=
  match rf with
  | RNorm ps en =>
    match r0 with
    | RNorm _ _ => RNorm ps en
    | RRet v _ _ => RRet v ps en
    | RBrk _ _ => RBrk ps en
    | RRaise _ _ => RRaise ps en
    | _ => RStuck
    end
  | RRet _ _ _ | RBrk _ _ | RRaise _ _ => rf     (* the clause itself leaves: that wins *)
  | _ => RStuck
  end.

Section Exec.
Variable call_enum : pstate -> value -> option pstate.   (* meaning of `await self._enumerate(v)` *)
Variable me : nat.
Variable fuel : nat.     (* bound for `while True` and for iteration over a live list *)

Fixpoint exec (s : stmt) (ps : pstate) (en : env) {struct s} : result :=
  match s with
  | SSkip => RNorm ps en
  | SSeq a b =>
    match exec a ps en with
    | RNorm ps' en' => exec b ps' en'
    | RYield v k ps' en' => RYield v (SSeq k b) ps' en'
    | RBlock k ps' en' => RBlock (SSeq k b) ps' en'
    | r => r
    end
  | SAssign ts e =>
    match eval me ps en e with
    | Some v => match assign_all ts v ps en with
                | Some (ps', en') => RNorm ps' en'
                | None => RStuck
                end
    | None => RStuck
    end
  | SIf c t f =>
    match cond me ps en c with
    | Some true => exec t ps en
    | Some false => exec f ps en
    | None => RStuck
    end
  | SRaise => RRaise ps en
  | SReturn e => match eval me ps en e with Some v => RRet v ps en | None => RStuck end
  | SBreak => RBrk ps en
  | SYield e => match eval me ps en e with Some v => RYield v SSkip ps en | None => RStuck end
  | SAwaitGet x y q =>
    match eval me ps en q with
    | Some (VQueue n) =>
      match get_queue ps n with
      | Some [] => RBlock (SAwaitGet x y q) ps en
      | Some ((i, e) :: r) => RNorm (set_queue ps n r) (set (set en x (VInt i)) y (VEnt (Some e)))
      | None => RStuck
      end
    | _ => RStuck
    end
  | SAwaitPut q e =>
    match eval me ps en q, eval me ps en e with
    | Some (VQueue n), Some (VPair i (Some x)) =>
      match get_queue ps n with
      | Some l => RNorm (set_queue ps n (l ++ [(i, x)])) en
      | None => RStuck
      end
    | _, _ => RStuck
    end
  | SCallEnumerate e =>
    match eval me ps en e with
    | Some v => match call_enum ps v with Some ps' => RNorm ps' en | None => RStuck end
    | None => RStuck
    end
  | SAppend a e =>
    match a, eval me ps en e with
    | ACache, Some (VPair i (Some x)) =>
      match p_cache ps with
      | Some l => RNorm (with_cache ps (Some (l ++ [(i, x)]))) en
      | None => RStuck
      end
    | AQueues, Some (VQueue n) => RNorm (with_queues ps (p_queues ps ++ [n])) en
    | _, _ => RStuck
    end
  | SRemove a e =>
    match a, eval me ps en e with
    | AQueues, Some (VQueue n) =>
      match remove_first n (p_queues ps) with
      | Some l => RNorm (with_queues ps l) en
      | None => RRaise ps en                     (* ValueError *)
      end
    | _, _ => RStuck
    end
  | SClear a =>
    match a, p_cache ps with
    | ACache, Some _ => RNorm (with_cache ps (Some [])) en
    | _, _ => RStuck
    end
  | SFor2 x y e body =>
    match eval me ps en e with
    | Some (VEnums l) => for2_list (exec body) x y body l ps en
    | Some (VLive a) => for2_live (exec body) x y body a fuel 0 ps en
    | _ => RStuck
    end
  | SFor2Run cur x y c body =>
    match exec cur ps en with
    | RNorm ps' en' =>
      match c with
      | CList r => for2_list (exec body) x y body r ps' en'
      | CLive a pos => for2_live (exec body) x y body a fuel pos ps' en'
      end
    | RBrk ps' en' => RNorm ps' en'
    | RYield v k ps' en' => RYield v (SFor2Run k x y c body) ps' en'
    | RBlock k ps' en' => RBlock (SFor2Run k x y c body) ps' en'
    | r => r
    end
  | SFor1 x e body =>
    match eval me ps en e with
    | Some (VQueueList l) => for1_list (exec body) x l ps en
    | _ => RStuck
    end
  | SWhileTrue body => while_loop (exec body) body fuel ps en
  | SWhileRun cur body =>
    match exec cur ps en with
    | RNorm ps' en' => while_loop (exec body) body fuel ps' en'
    | RBrk ps' en' => RNorm ps' en'
    | RYield v k ps' en' => RYield v (SWhileRun k body) ps' en'
    | RBlock k ps' en' => RBlock (SWhileRun k body) ps' en'
    | r => r
    end
  | STry body fin =>
    match exec body ps en with
    | RYield v k ps' en' => RYield v (STry k fin) ps' en'
    | RBlock k ps' en' => RBlock (STry k fin) ps' en'
    | RStuck => RStuck
    | RNorm ps' en' as r0 | RRet _ ps' en' as r0 | RBrk ps' en' as r0 | RRaise ps' en' as r0 =>
      after_fin r0 (exec fin ps' en')
    end
  end.

(** `aclose()` of a suspended generator (and the cancellation of a pending `__anext__`):
    GeneratorExit / CancelledError is raised at the suspension point, i.e. at the head of
    the rest [k]; the `finally` clauses of the enclosing `try`s run, innermost first. *)
Fixpoint unwind (k : stmt) (ps : pstate) (en : env) {struct k} : option (pstate * env) :=
  match k with
  | SSeq a _ => unwind a ps en
  | SFor2Run cur _ _ _ _ => unwind cur ps en
  | SWhileRun cur _ => unwind cur ps en
  | STry a fin =>
    match unwind a ps en with
    | Some (ps', en') =>
      match exec fin ps' en' with
      | RNorm ps'' en'' => Some (ps'', en'')
      | _ => None
      end
    | None => None
    end
  | _ => Some (ps, en)
  end.

End Exec.

(** ---- calls ---- *)

Definition const_val (e : expr) : option value :=
  match e with
  | ENone => Some VNone
  | EBool b => Some (VBool b)
  | EInt z => Some (VInt z)
  | _ => None
  end.

Fixpoint assoc {A} (l : list (string * A)) (x : string) : option A :=
  match l with
  | [] => None
  | (y, v) :: r => if String.eqb x y then Some v else assoc r x
  end.

(** Python's binding of arguments to a parameter list with defaults *)
Fixpoint bind_params (params : list (string * option expr)) (pos : list value)
         (kw : list (string * value)) (en : env) : option env :=
  match params with
  | [] => match pos with [] => Some en | _ => None end
  | (x, d) :: r =>
    match pos with
    | v :: pos' => match assoc kw x with
                   | Some _ => None                     (* given twice *)
                   | None => bind_params r pos' kw (set en x v)
                   end
    | [] =>
      match assoc kw x with
      | Some v => bind_params r [] kw (set en x v)
      | None =>
        match d with
        | Some e => match const_val e with
                    | Some v => bind_params r [] kw (set en x v)
                    | None => None
                    end
        | None => None
        end
      end
    end
  end.

Definition kw_known (params : list (string * option expr)) (kw : list (string * value)) : bool :=
  forallb (fun k => match assoc params (fst k) with Some _ => true | None => false end) kw.

Definition bind_call (params : list (string * option expr)) (pos : list value)
           (kw : list (string * value)) : option env :=
  if kw_known params kw then bind_params params pos kw env0 else None.

(** ---- the operations of a PubSubItem, by running the regenerated bodies ---- *)

Definition no_enum : pstate -> value -> option pstate := fun _ _ => None.

(** `await self._enumerate(v)` *)
Definition enum_sem (ps : pstate) (v : value) : option pstate :=
  match bind_call item_enumerate_params [v] [] with
  | Some en =>
    match exec no_enum 0 0 item_enumerate_body ps en with
    | RNorm ps' _ | RRet VNone ps' _ => Some ps'
    | _ => None
    end
  | None => None
  end.

Definition run_method (params : list (string * option expr)) (body : stmt)
           (pos : list value) (kw : list (string * value)) (ps : pstate) : result :=
  match bind_call params pos kw with
  | Some en => exec enum_sem 0 0 body ps en
  | None => RStuck
  end.

(** PubSubItem(cache=c) *)
Definition blank : pstate := mkP None 0 (0, None) None false [] [].

Definition iinit (kw : list (string * value)) : option pstate :=
  match run_method item_init_params item_init_body [] kw blank with
  | RNorm ps _ | RRet VNone ps _ => Some ps
  | _ => None
  end.

Definition plain_out (r : result) : option (pstate * out) :=
  match r with
  | RNorm ps _ | RRet VNone ps _ => Some (ps, OUnit)
  | RRaise ps _ => Some (ps, OErr)
  | _ => None
  end.

Definition latest_out (r : result) : option (pstate * out) :=
  match r with
  | RRet (VEnt (Some (It v))) ps _ => Some (ps, OLatest (Some v))
  | RRaise ps _ => Some (ps, OErr)
  | _ => None
  end.

Definition gen_fuel (ps : pstate) (s : nat) : nat :=
  S (match get_queue ps s with Some q => length q | None => 0 end
     + match p_cache ps with Some l => length l | None => 0 end).

(** store the new status and locals of generator s *)
Definition upd_gen (ps : pstate) (s : nat) (st : gstatus) (en : env) : pstate :=
  match nth_error (p_gens ps) s with
  | Some g => with_gens ps (upd (p_gens ps) s (mkGen (g_last g) (g_cache g) st en (g_queue g)))
  | None => ps
  end.

(** what `__anext__` reports *)
Definition settle (s : nat) (r : result) : option (pstate * out) :=
  match r with
  | RYield (VEnt (Some (It v))) k ps en => Some (upd_gen ps s (GSusp k) en, OItem v)
  | RBlock k ps en => Some (upd_gen ps s (GSusp k) en, OBlocked)
  | RNorm ps en | RRet VNone ps en => Some (upd_gen ps s GDone en, OStop)
  | _ => None
  end.

(** a call `subscribe(...)`: the arguments are bound, nothing else happens *)
Definition isub_call (ps : pstate) (pos : list value) (kw : list (string * value)) : option (pstate * out) :=
  match item_subscribe_kind with
  | AsyncGen =>       (* calling an async generator function runs nothing of its body *)
    match bind_call item_subscribe_params pos kw with
    | Some en =>
      match en "last"%string, en "cache"%string with
      | VBool l, VBool c =>
        Some (with_gens ps (p_gens ps ++ [mkGen l c GFresh en []]), OSid (length (p_gens ps)))
      | _, _ => None
      end
    | None => None
    end
  | _ => None
  end.

Definition isub (ps : pstate) (l c : bool) : option (pstate * out) :=
  isub_call ps [] [("last"%string, VBool l); ("cache"%string, VBool c)].

Definition inext (ps : pstate) (s : nat) : option (pstate * out) :=
  match nth_error (p_gens ps) s with
  | None => Some (ps, OErr)
  | Some g =>
    match g_status g with
    | GDone => Some (ps, OStop)
    | GFresh => settle s (exec enum_sem s (gen_fuel ps s) item_subscribe_body ps (g_env g))
    | GSusp k => settle s (exec enum_sem s (gen_fuel ps s) k ps (g_env g))
    end
  end.

Definition ileave (ps : pstate) (s : nat) : option (pstate * out) :=
  match nth_error (p_gens ps) s with
  | None => Some (ps, OErr)
  | Some g =>
    match g_status g with
    | GSusp k =>
      match unwind enum_sem s (gen_fuel ps s) k ps (g_env g) with
      | Some (ps', en') => Some (upd_gen ps' s GDone en', OUnit)
      | None => None
      end
    | _ => Some (upd_gen ps s GDone (g_env g), OUnit)
    end
  end.

Definition istep (ps : pstate) (o : op) : option (pstate * out) :=
  match o with
  | Publish v => plain_out (run_method item_publish_params item_publish_body [VEnt (Some (It v))] [] ps)
  | Clear => plain_out (run_method item_clear_params item_clear_body [] [] ps)
  | Close => plain_out (run_method item_aclose_params item_aclose_body [] [] ps)
  | Latest => latest_out (run_method item_latest_params item_latest_body [] [] ps)
  | Sub l c => isub ps l c
  | Next s => inext ps s
  | Leave s => ileave ps s
  end.

Fixpoint irun_from (ps : pstate) (ops : list op) : option (pstate * list out) :=
  match ops with
  | [] => Some (ps, [])
  | o :: r =>
    match istep ps o with
    | Some (ps', x) =>
      match irun_from ps' r with
      | Some (ps'', xs) => Some (ps'', x :: xs)
      | None => None
      end
    | None => None
    end
  end.

Definition iouts (cache : bool) (ops : list op) : option (list out) :=
  match iinit [("cache"%string, VBool cache)] with
  | Some ps => option_map snd (irun_from ps ops)
  | None => None
  end.
