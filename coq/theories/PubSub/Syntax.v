(** Abstract syntax of the fragment of Python used by
    nextline/utils/pubsub/item.py (PubSubItem) and broker.py (PubSub).

    translate/pubsub_funs.py regenerates Gen/PubSubFuns.v (terms of these types)
    from the source on every run; PubSub/Tie.v gives the syntax a semantics over
    the state of PubSub/Model.v and proves that the regenerated method bodies
    compute exactly the operations of the hand-written model.

    Definitions only.  Imports the Coq stdlib and, for the type [ent] of queue
    entries held by a suspended `for` loop, the definitions-only PubSub/Model.v. *)
From Coq Require Export List ZArith Bool String.
From NL Require Export PubSub.Model.
Export ListNotations.

(** tracked attributes of a PubSubItem *)
Inductive attr := ACache | AQueues | ALastEnum | ALastItem | AIdx | AClosed.

(** expressions *)
Inductive expr :=
| ENone | EBool (b : bool) | EInt (z : Z)
| EEnd                           (* _END *)
| EStart                         (* _START *)
| EVar (x : string)              (* local variable / argument *)
| EAttr (a : attr)               (* self._<a>: for the two lists a REFERENCE to the live list *)
| ETuple (a b : expr)            (* (a, b) *)
| ECopy (e : expr)               (* list(e): a private copy *)
| ENewList                       (* list[...]() *)
| ENewQueue                      (* asyncio.Queue[...]() *)
| EIs (a b : expr) | EIsNot (a b : expr)
| ELt (a b : expr) | ELe (a b : expr)
| EAdd (a b : expr)
| ENot (a : expr)
| EAnd (a b : expr) | EOr (a b : expr)     (* Python semantics: the value of an operand *)
| EIfExp (c t f : expr).                   (* t if c else f *)

Inductive target :=
| TVar (x : string)
| TAttr (a : attr)
| TPair (x y : string).          (* x, y = ... *)

(** where a suspended `for` stands (run-time only: never emitted by the translator) *)
Inductive cursor :=
| CList (rest : list enumd)        (* iterating a private copy: the elements still to come *)
| CLive (a : attr) (pos : nat).    (* iterating the live list self._<a>: next position *)

(** statements; suspension points are SYield and SAwaitGet.  `await q.put(..)` and
    `await self._enumerate(..)` cannot suspend (unbounded queue; checked on every run
    by the correspondence harness, which drives each coroutine with send(None)). *)
Inductive stmt :=
| SSkip
| SSeq (a b : stmt)
| SAssign (ts : list target) (e : expr)      (* t1 = t2 = ... = e  (left to right) *)
| SIf (c : expr) (t f : stmt)
| SRaise                                     (* raise <any exception> *)
| SReturn (e : expr)                         (* bare `return` = SReturn ENone *)
| SBreak
| SYield (e : expr)                          (* SUSPENSION POINT *)
| SAwaitGet (x y : string) (q : expr)        (* x, y = await q.get()      SUSPENSION POINT *)
| SAwaitPut (q e : expr)                     (* await q.put(e) *)
| SCallEnumerate (e : expr)                  (* await self._enumerate(e) *)
| SAppend (a : attr) (e : expr)              (* self._<a>.append(e) *)
| SRemove (a : attr) (e : expr)              (* self._<a>.remove(e) *)
| SClear (a : attr)                          (* self._<a>.clear() *)
| SFor2 (x y : string) (e : expr) (body : stmt)   (* for x, y in e: body *)
| SFor1 (x : string) (e : expr) (body : stmt)     (* for x in e: body *)
| SWhileTrue (body : stmt)
| STry (body fin : stmt)                     (* try: body finally: fin *)
(* run-time forms: a loop that has been entered and was suspended inside its body;
   [cur] is the rest of the current iteration *)
| SFor2Run (cur : stmt) (x y : string) (c : cursor) (body : stmt)
| SWhileRun (cur body : stmt).

(** ---- the broker (PubSub) ---- *)

Inductive imethod := MSubscribe | MPublish | MLatest | MAclose.

Inductive bexpr :=
| BGetItem (k : string)          (* self._queue[k]   (defaultdict: creates on a miss) *)
| BPop (k : string)              (* self._queue.pop(k, None) *)
| BVar (x : string).

Inductive bstmt :=
| BReturnCall (t : bexpr) (m : imethod) (pos : list string) (kw : list (string * string))
                                 (* return t.m(pos..., k=v...)   -- arguments are local names *)
| BAwaitCall (t : bexpr) (m : imethod) (pos : list string) (kw : list (string * string))
                                 (* await t.m(...) *)
| BIfWalrus (x : string) (e : bexpr) (body : list bstmt)   (* if x := e: body *)
| BWhileQueue (body : list bstmt)                          (* while self._queue: body *)
| BPopItem (x : string).                                   (* _, x = self._queue.popitem() *)
