(** The abstract specification satisfies the declarative statement of the
    property: what a subscriber got plus what it is still owed equals the
    expected sequence computed from the history alone. *)
From NL Require Import PubSub.Model PubSub.Spec.
From Coq Require Import Lia.
Open Scope Z_scope.

(** history produced by the spec machine *)
Fixpoint ahist_from (a : aspec) (ops : list op) : hist :=
  match ops with
  | [] => []
  | o :: r => let '(a', x) := astep a o in (o, x) :: ahist_from a' r
  end.

Definition ahist (cache : bool) (ops : list op) : hist := ahist_from (new_aspec cache) ops.

Lemma ahist_combine a ops : ahist_from a ops = combine ops (snd (arun_from a ops)).
Proof.
  revert a; induction ops as [|o ops IH]; intros a; simpl; auto.
  destruct (astep a o) as [a' x]. rewrite IH. destruct (arun_from a' ops). reflexivity.
Qed.

Definition is_sub (x : op * out) : bool := match fst x with Sub _ _ => true | _ => false end.
Definition count_subs (h : hist) : nat := length (filter is_sub h).

Definition started_exp (cache : bool) (b af : hist) (l c : bool) : list V :=
  if has_close b then [] else replay cache (since_clear b) l c ++ pubs (until_close af).

Lemma expected_unfold cache h s :
  expected cache h s =
  match split_start h s, sub_opts h s with
  | Some (b, af), Some (l, c) => started_exp cache b af l c
  | _, _ => []
  end.
Proof. unfold expected, started_exp. destruct (split_start h s) as [[b af]|]; auto. Qed.

(** does the entry start / concern subscriber s ? *)
Definition starts (s : nat) (x : op * out) : bool :=
  match x with
  | (Next _, OErr) => false
  | (Next s', _) => Nat.eqb s s'
  | _ => false
  end.

Definition leaves (s : nat) (x : op * out) : bool :=
  match x with
  | (Leave s', OUnit) => Nat.eqb s s'
  | _ => false
  end.

Definition gives (s : nat) (x : op * out) : list V :=
  match x with
  | (Next s', OItem v) => if Nat.eqb s s' then [v] else []
  | _ => []
  end.

Definition pub_of (x : op * out) : list V :=
  match x with (Publish v, OUnit) => [v] | _ => [] end.

(** ---- snoc lemmas for the history functions ---- *)

Lemma got_app h h' s : got (h ++ h') s = got h s ++ got h' s.
Proof.
  induction h as [|[o x] h IH]; simpl; auto.
  destruct o; auto. destruct x; auto. destruct (Nat.eqb s s0); simpl; congruence.
Qed.

Lemma got_one s x : got [x] s = gives s x.
Proof. destruct x as [[] []]; simpl; auto; destruct (Nat.eqb s s0); auto. Qed.

Lemma got_snoc h x s : got (h ++ [x]) s = got h s ++ gives s x.
Proof. rewrite got_app, got_one. reflexivity. Qed.

Lemma pubs_app h h' : pubs (h ++ h') = pubs h ++ pubs h'.
Proof.
  induction h as [|[o x] h IH]; simpl; auto.
  destruct o; auto. destruct x; auto. simpl. congruence.
Qed.

Lemma pubs_one x : pubs [x] = pub_of x.
Proof. destruct x as [[] []]; reflexivity. Qed.

Lemma has_close_app h h' : has_close (h ++ h') = has_close h || has_close h'.
Proof. apply existsb_app. Qed.

Lemma has_close_one x : has_close [x] = is_close x.
Proof. unfold has_close. simpl. apply orb_false_r. Qed.

Lemma until_close_snoc h x :
  until_close (h ++ [x]) =
  if has_close h then until_close h else if is_close x then until_close h else until_close h ++ [x].
Proof.
  induction h as [|[o y] h IH]; simpl.
  - destruct x as [[] ?]; reflexivity.
  - destruct o; simpl; try (rewrite IH; unfold has_close; simpl;
      destruct (existsb is_close h); [reflexivity|]; destruct (is_close x); reflexivity).
    reflexivity.
Qed.

Lemma until_close_noclose h : has_close h = false -> until_close h = h.
Proof.
  induction h as [|[o y] h IH]; simpl; auto.
  unfold has_close. simpl. destruct o; simpl; intros H; try discriminate; f_equal; apply IH; exact H.
Qed.

Lemma since_clear_acc_snoc h x acc :
  since_clear_acc (h ++ [x]) acc =
  match x with
  | (Publish v, OUnit) => since_clear_acc h acc ++ [v]
  | (Clear, OUnit) => []
  | _ => since_clear_acc h acc
  end.
Proof.
  revert acc; induction h as [|[o y] h IH]; intros acc; simpl.
  - destruct x as [[] []]; reflexivity.
  - destruct o; try apply IH; destruct y; apply IH.
Qed.

Lemma since_clear_snoc h x :
  since_clear (h ++ [x]) =
  match x with
  | (Publish v, OUnit) => since_clear h ++ [v]
  | (Clear, OUnit) => []
  | _ => since_clear h
  end.
Proof. apply since_clear_acc_snoc. Qed.

Lemma split_start_snoc h x s :
  split_start (h ++ [x]) s =
  match split_start h s with
  | Some (b, af) => Some (b, af ++ [x])
  | None => if starts s x then Some (h, []) else None
  end.
Proof.
  induction h as [|[o y] h IH]; simpl.
  - destruct x as [[] y]; simpl; auto. destruct y; simpl; auto; destruct (Nat.eqb s s0); auto.
  - destruct o; try (rewrite IH; destruct (split_start h s) as [[b af]|]; [reflexivity|];
                     destruct (starts s x); reflexivity).
    destruct y; try (destruct (Nat.eqb s s0); [reflexivity|]);
      rewrite IH; destruct (split_start h s) as [[b af]|]; try reflexivity;
      destruct (starts s x); reflexivity.
Qed.

Lemma split_start_shape h s b af :
  split_start h s = Some (b, af) -> exists x, h = b ++ x :: af /\ is_close x = false.
Proof.
  revert b af; induction h as [|[o y] h IH]; intros b af H; simpl in H; [discriminate|].
  destruct o;
    try (destruct (split_start h s) as [[b' af']|]; [|discriminate]; inversion H; subst;
         destruct (IH _ _ eq_refl) as (x & -> & Hx); exists x; split; [reflexivity | exact Hx]).
  destruct y;
    try (destruct (Nat.eqb s s0); [inversion H; subst; eexists; split; [reflexivity | reflexivity]|]);
    destruct (split_start h s) as [[b' af']|]; try discriminate; inversion H; subst;
    destruct (IH _ _ eq_refl) as (x & -> & Hx); exists x; split; try reflexivity; exact Hx.
Qed.

Lemma left_sub_snoc h x s : left_sub (h ++ [x]) s = left_sub h s || leaves s x.
Proof.
  induction h as [|[o y] h IH]; simpl.
  - destruct x as [[] []]; simpl; auto using orb_false_r.
  - destruct o; auto. destruct y; auto. rewrite IH. apply orb_assoc.
Qed.

Lemma sub_opts_snoc h x s :
  sub_opts (h ++ [x]) s =
  match sub_opts h s with
  | Some o => Some o
  | None => match fst x with
            | Sub l c => if Nat.eqb s (count_subs h) then Some (l, c) else None
            | _ => None
            end
  end.
Proof.
  revert s; induction h as [|[o y] h IH]; intros s; simpl.
  - destruct x as [[] ?]; simpl; auto. destruct s; reflexivity.
  - destruct o; try apply IH.
    destruct s as [|s]; [reflexivity|]. rewrite IH.
    destruct (sub_opts h s); auto.
Qed.

Lemma count_subs_snoc h x : count_subs (h ++ [x]) = (count_subs h + if is_sub x then 1 else 0)%nat.
Proof.
  unfold count_subs. rewrite filter_app, app_length. simpl. destruct (is_sub x); reflexivity.
Qed.

(** ---- the invariant ---- *)

Definition SubInv (cache : bool) (h : hist) (s : nat) (sa : asub) : Prop :=
  sub_opts h s = Some (a_last sa, a_cacheopt sa) /\
  match a_state sa with
  | AFresh => split_start h s = None /\ left_sub h s = false /\ a_owed sa = []
  | AActive =>
    left_sub h s = false /\ a_end sa = has_close h /\
    exists b af, split_start h s = Some (b, af) /\ has_close b = false /\
      got h s ++ a_owed sa = started_exp cache b af (a_last sa) (a_cacheopt sa)
  | AFinished =>
    a_owed sa = [] /\
    (left_sub h s = true \/
     (has_close h = true /\ exists b af, split_start h s = Some (b, af) /\
        got h s = started_exp cache b af (a_last sa) (a_cacheopt sa)))
  end.

Record Inv (cache : bool) (a : aspec) (h : hist) : Prop := mkInv {
  I_cache : a_cache a = cache;
  I_ended : a_ended a = has_close h;
  I_since : a_since a = since_clear h;
  I_n : length (a_subs a) = count_subs h;
  I_subs : forall s sa, nth_error (a_subs a) s = Some sa -> SubInv cache h s sa;
  I_none : forall s, (count_subs h <= s)%nat ->
           split_start h s = None /\ left_sub h s = false /\ got h s = [] /\ sub_opts h s = None
}.

Lemma Inv_init cache : Inv cache (new_aspec cache) [].
Proof.
  constructor; simpl; auto.
  intros [|s] sa H; discriminate.
Qed.

(** Entries that leave the obligations of subscriber s unchanged. *)

Lemma sub_opts_some_snoc h x s o : sub_opts h s = Some o -> sub_opts (h ++ [x]) s = Some o.
Proof. intros H. rewrite sub_opts_snoc, H. reflexivity. Qed.

Lemma started_exp_snoc_quiet cache b af x l c :
  pub_of x = [] -> is_close x = false ->
  started_exp cache b (af ++ [x]) l c = started_exp cache b af l c.
Proof.
  intros Hp Hc. unfold started_exp. destruct (has_close b); auto. f_equal.
  rewrite until_close_snoc, Hc. destruct (has_close af); auto.
  rewrite pubs_app, pubs_one, Hp, app_nil_r. reflexivity.
Qed.

Lemma started_exp_snoc_closed cache b af x l c :
  has_close b || has_close af = true ->
  started_exp cache b (af ++ [x]) l c = started_exp cache b af l c.
Proof.
  intros H. unfold started_exp. destruct (has_close b); auto. simpl in H.
  rewrite until_close_snoc, H. reflexivity.
Qed.

Lemma shape_close h s b af :
  split_start h s = Some (b, af) -> has_close h = has_close b || has_close af.
Proof.
  intros H. destruct (split_start_shape _ _ _ _ H) as (x & -> & Hx).
  rewrite has_close_app. change (x :: af) with ([x] ++ af). rewrite has_close_app, has_close_one, Hx.
  reflexivity.
Qed.

Lemma SubInv_fresh_keep cache h s sa x :
  a_state sa = AFresh -> starts s x = false -> leaves s x = false ->
  SubInv cache h s sa -> SubInv cache (h ++ [x]) s sa.
Proof.
  intros Est Hst Hlv (Ho & H). split; [apply sub_opts_some_snoc; exact Ho|].
  rewrite Est in *. destruct H as (Hsp & Hl & Hw).
  rewrite split_start_snoc, Hsp, Hst, left_sub_snoc, Hl, Hlv. auto.
Qed.

Lemma SubInv_fin_keep cache h s sa x :
  a_state sa = AFinished -> gives s x = [] ->
  SubInv cache h s sa -> SubInv cache (h ++ [x]) s sa.
Proof.
  intros Est Hgv (Ho & H). split; [apply sub_opts_some_snoc; exact Ho|].
  rewrite Est in *. destruct H as (Hw & H). split; auto.
  destruct H as [Hl | (Hc & b & af & Hsp & Hg)].
  - left. rewrite left_sub_snoc, Hl. reflexivity.
  - right. rewrite has_close_app, Hc. split; auto. exists b, (af ++ [x]).
    rewrite split_start_snoc, Hsp, got_snoc, Hgv, app_nil_r, started_exp_snoc_closed; auto.
    rewrite <- (shape_close _ _ _ _ Hsp). exact Hc.
Qed.

Lemma SubInv_active_keep cache h s sa x :
  a_state sa = AActive -> leaves s x = false -> gives s x = [] ->
  (pub_of x = [] /\ is_close x = false \/ has_close h = true) ->
  SubInv cache h s sa -> SubInv cache (h ++ [x]) s sa.
Proof.
  intros Est Hlv Hgv Hq (Ho & H). split; [apply sub_opts_some_snoc; exact Ho|].
  rewrite Est in *. destruct H as (Hl & He & b & af & Hsp & Hb & Hg).
  rewrite left_sub_snoc, Hl, Hlv, has_close_app, has_close_one.
  repeat split; auto.
  - destruct Hq as [(_ & Hc) | Hc]; rewrite Hc, ?orb_false_r, ?orb_true_l; auto.
    rewrite He, Hc. reflexivity.
  - exists b, (af ++ [x]). rewrite split_start_snoc, Hsp, got_snoc, Hgv, app_nil_r.
    repeat split; auto. rewrite Hg.
    destruct Hq as [(Hp & Hc) | Hc].
    + rewrite started_exp_snoc_quiet; auto.
    + rewrite started_exp_snoc_closed; auto. rewrite <- (shape_close _ _ _ _ Hsp). exact Hc.
Qed.

(** for a subscriber s that x does not address *)
Lemma SubInv_keep cache h s sa x :
  starts s x = false -> leaves s x = false -> gives s x = [] ->
  (pub_of x = [] /\ is_close x = false \/ has_close h = true) ->
  SubInv cache h s sa -> SubInv cache (h ++ [x]) s sa.
Proof.
  intros. destruct (a_state sa) eqn:E;
    [apply SubInv_fresh_keep | apply SubInv_active_keep | apply SubInv_fin_keep]; auto.
Qed.

Lemma none_keep h s x :
  (split_start h s = None /\ left_sub h s = false /\ got h s = [] /\ sub_opts h s = None) ->
  starts s x = false -> leaves s x = false -> gives s x = [] ->
  (is_sub x = true -> s <> count_subs h) ->
  split_start (h ++ [x]) s = None /\ left_sub (h ++ [x]) s = false /\ got (h ++ [x]) s = []
  /\ sub_opts (h ++ [x]) s = None.
Proof.
  intros (Hsp & Hl & Hg & Ho) Hst Hlv Hgv Hsub.
  rewrite split_start_snoc, Hsp, Hst, left_sub_snoc, Hl, Hlv, got_snoc, Hg, Hgv, sub_opts_snoc, Ho.
  repeat split; auto.
  destruct x as [[] y]; simpl in *; auto.
  destruct (Nat.eqb_spec s (count_subs h)); auto. exfalso. apply Hsub; auto.
Qed.

(** nth_error / upd / map facts *)
Lemma nth_error_upd_eq {A} (l : list A) n x y : nth_error l n = Some y -> nth_error (upd l n x) n = Some x.
Proof. revert n; induction l; intros [|n] H; simpl in *; try discriminate; auto. Qed.

Lemma nth_error_upd_neq {A} (l : list A) n m x : n <> m -> nth_error (upd l n x) m = nth_error l m.
Proof. revert n m; induction l; intros [|n] [|m] H; simpl; auto; try congruence. Qed.

Lemma upd_length {A} (l : list A) n x : length (upd l n x) = length l.
Proof. revert n; induction l; intros [|n]; simpl; auto. Qed.

Lemma nth_error_lt {A} (l : list A) n x : nth_error l n = Some x -> (n < length l)%nat.
Proof. intros H. apply nth_error_Some. congruence. Qed.

Lemma split_none_got h s : split_start h s = None -> got h s = [].
Proof.
  induction h as [|[o y] h IH]; simpl; auto.
  destruct o;
    try (destruct (split_start h s) as [[? ?]|]; [discriminate | auto]).
  destruct y; try (destruct (Nat.eqb s s0); [discriminate|]);
    destruct (split_start h s) as [[? ?]|]; try discriminate; auto.
Qed.

(** ---- one step of the spec machine preserves the invariant ---- *)

(** entries that change no subscriber and are not a successful publish/close/sub *)
Lemma Inv_quiet cache a a' h x :
  Inv cache a h ->
  a_cache a' = a_cache a -> a_ended a' = a_ended a -> a_subs a' = a_subs a ->
  a_since a' = since_clear (h ++ [x]) ->
  (forall s, (s < count_subs h)%nat -> starts s x = false /\ leaves s x = false /\ gives s x = []) ->
  (forall s, (count_subs h <= s)%nat -> starts s x = false /\ leaves s x = false /\ gives s x = []) ->
  (pub_of x = [] /\ is_close x = false \/ has_close h = true) ->
  is_sub x = false ->
  Inv cache a' (h ++ [x]).
Proof.
  intros [Hca Hen Hsi Hn Hsu Hno] Ec Ee Es Esi Hin Hout Hq Hsub.
  constructor.
  - congruence.
  - rewrite Ee, Hen, has_close_app, has_close_one.
    destruct Hq as [(_ & ->) | ->]; [rewrite orb_false_r|]; reflexivity.
  - exact Esi.
  - rewrite Es, Hn, count_subs_snoc, Hsub. lia.
  - rewrite Es. intros s sa H.
    assert (Hlt : (s < count_subs h)%nat) by (rewrite <- Hn; eapply nth_error_lt; eauto).
    destruct (Hin _ Hlt) as (H1 & H2 & H3). apply SubInv_keep; auto.
  - intros s Hs. rewrite count_subs_snoc, Hsub in Hs.
    assert (Hle : (count_subs h <= s)%nat) by lia.
    destruct (Hout _ Hle) as (H1 & H2 & H3). apply none_keep; auto. congruence.
Qed.

Lemma a_next_not_err a sb : snd (a_next a sb) <> OErr.
Proof.
  unfold a_next.
  destruct (a_state sb) eqn:E; simpl; rewrite ?E; simpl.
  - destruct (a_ended a); simpl; [discriminate|].
    destruct (replay (a_cache a) (a_since a) (a_last sb) (a_cacheopt sb)); simpl; discriminate.
  - destruct (a_owed sb); simpl; [|discriminate]. destruct (a_end sb); simpl; discriminate.
  - discriminate.
Qed.

Lemma starts_next_other s s0 y : s <> s0 -> starts s (Next s0, y) = false.
Proof. intros H. simpl. destruct y; auto; apply Nat.eqb_neq; exact H. Qed.

Lemma gives_next_other s s0 y : s <> s0 -> gives s (Next s0, y) = [].
Proof. intros H. simpl. destruct y; auto. apply Nat.eqb_neq in H. rewrite H. reflexivity. Qed.

Lemma starts_next_self s y : y <> OErr -> starts s (Next s, y) = true.
Proof. intros H. simpl. destruct y; auto using Nat.eqb_refl; congruence. Qed.

Ltac quiet HI Hsi :=
  eapply Inv_quiet;
  [ exact HI | reflexivity | simpl; congruence | reflexivity
  | rewrite since_clear_snoc; simpl; try exact Hsi; try reflexivity
  | intros; repeat split; reflexivity
  | intros; repeat split; reflexivity
  |
  | reflexivity ].

Lemma step_Inv cache a h o :
  Inv cache a h -> Inv cache (fst (astep a o)) (h ++ [(o, snd (astep a o))]).
Proof.
  intros HI. pose proof HI as [Hca Hen Hsi Hn Hsu Hno].
  assert (Hlt : forall s sa, nth_error (a_subs a) s = Some sa -> (s < count_subs h)%nat)
    by (intros s sa H; rewrite <- Hn; eapply nth_error_lt; eauto).
  destruct o as [v| | | |l c|s0|s0]; simpl.
  - (* Publish *)
    destruct (a_ended a) eqn:Een; simpl.
    { quiet HI Hsi. left; split; reflexivity. }
    constructor; simpl; auto.
    + rewrite has_close_app, <- Hen. reflexivity.
    + rewrite since_clear_snoc, Hsi. reflexivity.
    + rewrite map_length, count_subs_snoc. simpl. lia.
    + intros s sa' H. rewrite nth_error_map in H.
      destruct (nth_error (a_subs a) s) as [sa|] eqn:En; [|discriminate]. inversion H; subst sa'. clear H.
      pose proof (Hsu _ _ En) as HS. unfold a_push.
      destruct (a_state sa) eqn:Est.
      * apply SubInv_fresh_keep; auto.
      * destruct HS as (Ho & Hs). rewrite Est in Hs.
        split; simpl; [apply sub_opts_some_snoc; exact Ho|].
        destruct Hs as (Hl & He & b & af & Hsp & Hb & Hg).
        rewrite left_sub_snoc, Hl, has_close_app, <- Hen. simpl.
        repeat split; auto; [congruence|]. exists b, (af ++ [(Publish v, OUnit)]).
        rewrite split_start_snoc, Hsp, got_snoc. simpl. rewrite app_nil_r.
        repeat split; auto.
        rewrite app_assoc, Hg. unfold started_exp. rewrite Hb, <- app_assoc. f_equal.
        rewrite until_close_snoc.
        assert (Haf : has_close af = false).
        { pose proof (shape_close _ _ _ _ Hsp) as E. rewrite <- Hen, Hb in E. simpl in E. congruence. }
        rewrite Haf. simpl. rewrite pubs_app. reflexivity.
      * apply SubInv_fin_keep; auto.
    + intros s Hs. rewrite count_subs_snoc in Hs. simpl in Hs.
      apply none_keep; auto; try discriminate. apply Hno. lia.
  - (* Clear *)
    destruct (a_ended a) eqn:Een; simpl.
    { quiet HI Hsi. left; split; reflexivity. }
    quiet HI Hsi. left; split; reflexivity.
  - (* Close *)
    destruct (a_ended a) eqn:Een; simpl.
    { quiet HI Hsi. right. congruence. }
    constructor; simpl; auto.
    + rewrite has_close_app, has_close_one. simpl. symmetry. apply orb_true_r.
    + rewrite since_clear_snoc. exact Hsi.
    + rewrite map_length, count_subs_snoc. simpl. lia.
    + intros s sa' H. rewrite nth_error_map in H.
      destruct (nth_error (a_subs a) s) as [sa|] eqn:En; [|discriminate]. inversion H; subst sa'. clear H.
      pose proof (Hsu _ _ En) as HS. unfold a_finish.
      destruct (a_state sa) eqn:Est.
      * apply SubInv_fresh_keep; auto.
      * destruct HS as (Ho & Hs). rewrite Est in Hs.
        split; simpl; [apply sub_opts_some_snoc; exact Ho|].
        destruct Hs as (Hl & He & b & af & Hsp & Hb & Hg).
        rewrite left_sub_snoc, Hl, has_close_app, has_close_one. simpl.
        repeat split; auto; [rewrite orb_true_r; reflexivity|]. exists b, (af ++ [(Close, OUnit)]).
        rewrite split_start_snoc, Hsp, got_snoc. simpl. rewrite app_nil_r.
        repeat split; auto.
        rewrite Hg. unfold started_exp. rewrite Hb. f_equal.
        rewrite until_close_snoc.
        assert (Haf : has_close af = false).
        { pose proof (shape_close _ _ _ _ Hsp) as E. rewrite <- Hen, Hb in E. simpl in E. congruence. }
        rewrite Haf. reflexivity.
      * apply SubInv_fin_keep; auto.
    + intros s Hs. rewrite count_subs_snoc in Hs. simpl in Hs.
      apply none_keep; auto; try discriminate. apply Hno. lia.
  - (* Latest *)
    quiet HI Hsi. left; split; reflexivity.
  - (* Sub *)
    constructor; simpl; auto.
    + rewrite has_close_app, has_close_one. simpl. rewrite orb_false_r. exact Hen.
    + rewrite since_clear_snoc. exact Hsi.
    + rewrite app_length, count_subs_snoc. simpl. lia.
    + intros s sa H.
      destruct (Nat.lt_ge_cases s (length (a_subs a))) as [Hs|Hs].
      * rewrite nth_error_app1 in H by assumption.
        apply SubInv_keep; auto.
      * rewrite nth_error_app2 in H by assumption.
        destruct (s - length (a_subs a))%nat as [|k] eqn:Ek; simpl in H; [|destruct k; discriminate].
        inversion H; subst sa. clear H.
        assert (Es : s = count_subs h) by lia. subst s.
        destruct (Hno (count_subs h) (le_n _)) as (Hsp & Hl & Hg & Ho).
        split; simpl.
        -- rewrite sub_opts_snoc, Ho. simpl. rewrite Nat.eqb_refl. reflexivity.
        -- rewrite split_start_snoc, Hsp, left_sub_snoc, Hl. simpl. auto.
    + intros s Hs. rewrite count_subs_snoc in Hs. simpl in Hs.
      apply none_keep; auto. apply Hno. lia. intros _. lia.
  - (* Next *)
    destruct (nth_error (a_subs a) s0) as [sb|] eqn:En; simpl.
    2:{ assert (Hge : (count_subs h <= s0)%nat) by (rewrite <- Hn; apply nth_error_None; exact En).
        quiet HI Hsi. left; split; reflexivity. }
    pose proof (a_next_not_err a sb) as Hne.
    destruct (a_next a sb) as [sb' y] eqn:Ean. simpl in *.
    constructor; simpl; auto.
    + rewrite has_close_app, has_close_one. simpl. rewrite orb_false_r. exact Hen.
    + rewrite since_clear_snoc. exact Hsi.
    + rewrite upd_length, count_subs_snoc. simpl. lia.
    + intros s sa H. destruct (Nat.eq_dec s0 s) as [<-|Hneq].
      2:{ rewrite nth_error_upd_neq in H by assumption.
          apply SubInv_keep; auto.
          - apply starts_next_other; auto.
          - apply gives_next_other; auto. }
      rewrite (nth_error_upd_eq _ _ _ _ En) in H. inversion H; subst sa. clear H.
      pose proof (Hsu _ _ En) as HS. pose proof HS as (Ho & Hs).
      unfold a_next in Ean.
      destruct (a_state sb) eqn:Est.
      * (* first anext *)
        destruct Hs as (Hsp & Hl & Hw).
        destruct (a_ended a) eqn:Een.
        -- simpl in Ean. inversion Ean; subst sb' y. clear Ean.
           split; simpl; [apply sub_opts_some_snoc; exact Ho|]. split; [reflexivity|]. right.
           rewrite has_close_app, <- Hen. split; [reflexivity|].
           exists h, []. rewrite split_start_snoc, Hsp. simpl. rewrite Nat.eqb_refl.
           split; [reflexivity|]. rewrite got_snoc, (split_none_got _ _ Hsp). simpl.
           unfold started_exp. rewrite <- Hen. reflexivity.
        -- simpl in Ean.
           assert (Hexp : started_exp cache h [] (a_last sb) (a_cacheopt sb)
                          = replay (a_cache a) (a_since a) (a_last sb) (a_cacheopt sb)).
           { unfold started_exp. rewrite <- Hen, Hca, Hsi. simpl. apply app_nil_r. }
           destruct (replay (a_cache a) (a_since a) (a_last sb) (a_cacheopt sb)) as [|v r] eqn:Erp.
           ++ simpl in Ean. inversion Ean; subst sb' y. clear Ean.
              split; simpl; [apply sub_opts_some_snoc; exact Ho|].
              rewrite left_sub_snoc, Hl, has_close_app, has_close_one, <- Hen. simpl.
              repeat split; auto. exists h, [].
              rewrite split_start_snoc, Hsp. simpl. rewrite Nat.eqb_refl.
              repeat split; auto. rewrite got_snoc, (split_none_got _ _ Hsp). simpl. auto.
           ++ simpl in Ean. inversion Ean; subst sb' y. clear Ean.
              split; simpl; [apply sub_opts_some_snoc; exact Ho|].
              rewrite left_sub_snoc, Hl, has_close_app, has_close_one, <- Hen. simpl.
              repeat split; auto. exists h, [].
              rewrite split_start_snoc, Hsp. simpl. rewrite Nat.eqb_refl.
              repeat split; auto. rewrite got_snoc, (split_none_got _ _ Hsp). simpl.
              rewrite Nat.eqb_refl. simpl. auto.
      * (* started *)
        rewrite Est in Ean.
        destruct Hs as (Hl & He & b & af & Hsp & Hb & Hg).
        destruct (a_owed sb) as [|v r] eqn:Eow.
        -- destruct (a_end sb) eqn:Eend.
           ++ inversion Ean; subst sb' y. clear Ean.
              split; simpl; [apply sub_opts_some_snoc; exact Ho|]. split; [reflexivity|]. right.
              rewrite has_close_app, <- He. split; [reflexivity|].
              exists b, (af ++ [(Next s0, OStop)]).
              rewrite split_start_snoc, Hsp, got_snoc. simpl. rewrite app_nil_r.
              split; [reflexivity|]. rewrite app_nil_r in Hg. rewrite Hg.
              rewrite started_exp_snoc_quiet; auto.
           ++ inversion Ean; subst sb' y. clear Ean.
              apply SubInv_active_keep; auto.
        -- inversion Ean; subst sb' y. clear Ean.
           split; simpl; [apply sub_opts_some_snoc; exact Ho|].
           rewrite left_sub_snoc, Hl, has_close_app, has_close_one, <- He. simpl.
           rewrite orb_false_r.
           repeat split; auto. exists b, (af ++ [(Next s0, OItem v)]).
           rewrite split_start_snoc, Hsp, got_snoc. simpl. rewrite Nat.eqb_refl.
           repeat split; auto. rewrite <- app_assoc. simpl. rewrite Hg.
           rewrite started_exp_snoc_quiet; auto.
      * rewrite Est in Ean. inversion Ean; subst sb' y. clear Ean.
        apply SubInv_fin_keep; auto.
    + intros s Hs. rewrite count_subs_snoc in Hs. simpl in Hs.
      assert (Hneq : s <> s0) by (pose proof (Hlt _ _ En); lia).
      apply none_keep; auto; try discriminate.
      * apply Hno; lia.
      * apply starts_next_other; auto.
      * apply gives_next_other; auto.
  - (* Leave *)
    destruct (nth_error (a_subs a) s0) as [sb|] eqn:En; simpl.
    2:{ quiet HI Hsi. left; split; reflexivity. }
    constructor; simpl; auto.
    + rewrite has_close_app, has_close_one. simpl. rewrite orb_false_r. exact Hen.
    + rewrite since_clear_snoc. exact Hsi.
    + rewrite upd_length, count_subs_snoc. simpl. lia.
    + intros s sa H. destruct (Nat.eq_dec s0 s) as [<-|Hneq].
      2:{ rewrite nth_error_upd_neq in H by assumption.
          apply SubInv_keep; auto.
          simpl. apply Nat.eqb_neq. auto. }
      rewrite (nth_error_upd_eq _ _ _ _ En) in H. inversion H; subst sa. clear H.
      destruct (Hsu _ _ En) as (Ho & _).
      split; simpl; [apply sub_opts_some_snoc; exact Ho|]. split; [reflexivity|]. left.
      rewrite left_sub_snoc. simpl. rewrite Nat.eqb_refl. apply orb_true_r.
    + intros s Hs. rewrite count_subs_snoc in Hs. simpl in Hs.
      assert (Hneq : s <> s0) by (pose proof (Hlt _ _ En); lia).
      apply none_keep; auto; try discriminate.
      * apply Hno; lia.
      * simpl. apply Nat.eqb_neq. auto.
Qed.

Lemma run_Inv cache ops : forall a h,
  Inv cache a h -> Inv cache (fst (arun_from a ops)) (h ++ ahist_from a ops).
Proof.
  induction ops as [|o ops IH]; intros a h HI; simpl.
  - rewrite app_nil_r. exact HI.
  - pose proof (step_Inv _ _ _ o HI) as HS.
    destruct (astep a o) as [a' x]. simpl in HS.
    specialize (IH _ _ HS). destruct (arun_from a' ops) as [a'' xs]. simpl in *.
    rewrite <- app_assoc in IH. exact IH.
Qed.

Theorem spec_Inv cache ops : Inv cache (arun cache ops) (ahist cache ops).
Proof. apply (run_Inv cache ops _ [] (Inv_init cache)). Qed.

(** what the spec still owes subscriber s *)
Definition a_owed_of (a : aspec) (s : nat) : list V :=
  match nth_error (a_subs a) s with Some sa => a_owed sa | None => [] end.

Theorem spec_exact_delivery cache ops s :
  let h := ahist cache ops in
  left_sub h s = false ->
  got h s ++ a_owed_of (arun cache ops) s = expected cache h s.
Proof.
  intros h Hl. pose proof (spec_Inv cache ops) as [Hca Hen Hsi Hn Hsu Hno]. fold h in Hen, Hsi, Hn, Hsu, Hno.
  unfold a_owed_of. rewrite expected_unfold.
  destruct (nth_error (a_subs (arun cache ops)) s) as [sa|] eqn:En.
  - destruct (Hsu _ _ En) as (Ho & H). rewrite Ho.
    destruct (a_state sa).
    + destruct H as (Hsp & _ & Hw). rewrite Hsp, Hw, (split_none_got _ _ Hsp). reflexivity.
    + destruct H as (_ & _ & b & af & Hsp & _ & Hg). rewrite Hsp. exact Hg.
    + destruct H as (Hw & [H | (_ & b & af & Hsp & Hg)]); [congruence|].
      rewrite Hsp, Hw, app_nil_r. exact Hg.
  - assert (Hge : (count_subs h <= s)%nat) by (rewrite <- Hn; apply nth_error_None; exact En).
    destruct (Hno _ Hge) as (Hsp & _ & Hg & _). rewrite Hsp, Hg. reflexivity.
Qed.

(** once the topic has ended no live subscriber can block, and each one stops
    after exactly the items it is still owed *)
Fixpoint drain (a : aspec) (sa : asub) (n : nat) : list out :=
  match n with
  | O => []
  | S n => let '(sa', o) := a_next a sa in o :: drain a sa' n
  end.

Lemma a_next_active a sa :
  a_state sa = AActive ->
  a_next a sa = match a_owed sa with
                | v :: r => (mkASub (a_last sa) (a_cacheopt sa) AActive r (a_end sa), OItem v)
                | [] => if a_end sa then (a_done sa, OStop) else (sa, OBlocked)
                end.
Proof. intros Est. unfold a_next. rewrite Est. simpl. rewrite Est. reflexivity. Qed.

Lemma drain_active a sa :
  a_state sa = AActive -> a_end sa = true ->
  drain a sa (S (length (a_owed sa))) = map OItem (a_owed sa) ++ [OStop].
Proof.
  intros Est Een. remember (a_owed sa) as ow eqn:Eow. revert sa Est Een Eow.
  induction ow as [|v r IH]; intros sa Est Een Eow; simpl.
  - rewrite a_next_active, <- Eow, Een by assumption. reflexivity.
  - rewrite a_next_active, <- Eow by assumption. f_equal.
    apply IH; simpl; auto.
Qed.

Theorem spec_termination cache ops s sa :
  let a := arun cache ops in
  a_ended a = true -> nth_error (a_subs a) s = Some sa ->
  exists n, last (drain a sa (S n)) OBlocked = OStop /\ ~ In OBlocked (drain a sa (S n)).
Proof.
  intros a Hend En.
  pose proof (spec_Inv cache ops) as [Hca Hen Hsi Hn Hsu Hno].
  destruct (Hsu _ _ En) as (_ & H). fold a in Hen.
  destruct (a_state sa) eqn:Est.
  - exists O. simpl. unfold a_next. rewrite Est, Hend. simpl. split; [reflexivity|]. intros [H0|[]]. discriminate.
  - destruct H as (_ & He & _). exists (length (a_owed sa)).
    rewrite drain_active; auto; [|congruence]. split.
    + rewrite last_last. reflexivity.
    + intros Hin. apply in_app_or in Hin. destruct Hin as [Hin|[Hin|[]]]; [|discriminate].
      apply in_map_iff in Hin. destruct Hin as (? & ? & _). discriminate.
  - exists O. simpl. unfold a_next. rewrite Est. simpl. rewrite Est. simpl. split; [reflexivity|]. intros [H0|[]]. discriminate.
Qed.

(** all subscribers see one order: the new items of every subscriber form a
    suffix of the single publication log of the topic's lifetime *)
Lemma until_close_app_noclose b x af :
  has_close b = false -> is_close x = false ->
  until_close (b ++ x :: af) = b ++ x :: until_close af.
Proof.
  induction b as [|[o y] b IH]; simpl; intros Hb Hx.
  - destruct x as [[] ?]; simpl in *; try reflexivity. discriminate.
  - unfold has_close in Hb. simpl in Hb. destruct o; simpl in *; try discriminate; f_equal; apply IH; auto.
Qed.

Theorem one_order h s b af :
  split_start h s = Some (b, af) -> has_close b = false ->
  exists pre, pubs (until_close h) = pre ++ pubs (until_close af).
Proof.
  intros Hsp Hb. destruct (split_start_shape _ _ _ _ Hsp) as (x & -> & Hx).
  rewrite until_close_app_noclose by assumption.
  exists (pubs (b ++ [x])). change (x :: until_close af) with ([x] ++ until_close af).
  rewrite app_assoc, pubs_app. reflexivity.
Qed.

Theorem spec_latest cache ops :
  snd (astep (arun cache ops) Latest) =
  match rev (since_clear (ahist cache ops)) with v :: _ => OLatest (Some v) | [] => OErr end.
Proof.
  pose proof (spec_Inv cache ops) as [_ _ Hsi _ _ _]. simpl. rewrite Hsi. reflexivity.
Qed.
