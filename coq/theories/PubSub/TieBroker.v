(** The broker (PubSub, nextline/utils/pubsub/broker.py): an interpreter for the
    regenerated method bodies of Gen/PubSubFuns.v ([bstmt]) over a `defaultdict` of
    PubSubItem states, each item method call being run through the item interpreter of
    PubSub/Interp.v on the REGENERATED item bodies; and the proof that every broker
    operation computes [bstep] of PubSub/Model.v. *)
From NL Require Import PubSub.Model PubSub.Syntax Gen.PubSubFuns PubSub.Interp PubSub.Tie.
From Coq Require Import Lia.
Open Scope Z_scope.

(** ---- state and values ---- *)

Record ibroker := mkIB {
  ib_map : list (key * nat);       (* self._queue: key -> instance; most recently inserted first *)
  ib_items : list pstate;          (* every PubSubItem ever created *)
  ib_gens : list (nat * nat)       (* generator handle -> (instance, generator of that instance) *)
}.

Inductive bval :=
| BVKey (k : key) | BVVal (v : V) | BVBool (b : bool)
| BVItem (i : nat)                 (* a PubSubItem object *)
| BVNone | BVUnbound.

Definition benv := string -> bval.
Definition benv0 : benv := fun _ => BVUnbound.
Definition bset (en : benv) (x : string) (v : bval) : benv :=
  fun y => if String.eqb x y then v else en y.

(** an argument handed to a PubSubItem method *)
Definition to_value (v : bval) : option value :=
  match v with
  | BVVal x => Some (VEnt (Some (It x)))
  | BVBool b => Some (VBool b)
  | _ => None
  end.

Fixpoint to_values (en : benv) (xs : list string) : option (list value) :=
  match xs with
  | [] => Some []
  | x :: r => match to_value (en x), to_values en r with
              | Some v, Some vs => Some (v :: vs)
              | _, _ => None
              end
  end.

Fixpoint to_kw (en : benv) (kw : list (string * string)) : option (list (string * value)) :=
  match kw with
  | [] => Some []
  | (k, x) :: r => match to_value (en x), to_kw en r with
                   | Some v, Some vs => Some ((k, v) :: vs)
                   | _, _ => None
                   end
  end.

(** ---- calls of item methods: the regenerated item bodies, through PubSub/Interp.v ---- *)

Definition item_call (m : imethod) (pos : list value) (kw : list (string * value)) (ps : pstate)
  : option (pstate * out) :=
  match m with
  | MPublish => plain_out (run_method item_publish_params item_publish_body pos kw ps)
  | MAclose => plain_out (run_method item_aclose_params item_aclose_body pos kw ps)
  | MLatest => latest_out (run_method item_latest_params item_latest_body pos kw ps)
  | MSubscribe => isub_call ps pos kw
  end.

(** on the instance i; an index that does not exist is the harness' invalid handle *)
Definition icall (ib : ibroker) (i : nat) (f : pstate -> option (pstate * out)) : option (ibroker * out) :=
  match nth_error (ib_items ib) i with
  | Some ps => match f ps with
               | Some (ps', x) => Some (mkIB (ib_map ib) (upd (ib_items ib) i ps') (ib_gens ib), x)
               | None => None
               end
  | None => Some (ib, OErr)
  end.

(** `self._queue[key]` of `defaultdict(PubSubItem)`: a miss calls `PubSubItem()` *)
Definition iget_or_create (ib : ibroker) (k : key) : option (ibroker * nat) :=
  match lookup (ib_map ib) k with
  | Some i => Some (ib, i)
  | None =>
    match iinit [] with
    | Some ps0 => Some (mkIB ((k, length (ib_items ib)) :: ib_map ib) (ib_items ib ++ [ps0]) (ib_gens ib),
                        length (ib_items ib))
    | None => None
    end
  end.

Definition beval (e : bexpr) (ib : ibroker) (en : benv) : option (ibroker * bval) :=
  match e with
  | BGetItem x =>
    match en x with
    | BVKey k => match iget_or_create ib k with Some (ib', i) => Some (ib', BVItem i) | None => None end
    | _ => None
    end
  | BPop x =>
    match en x with
    | BVKey k =>
      match lookup (ib_map ib) k with
      | Some i => Some (mkIB (remove_key (ib_map ib) k) (ib_items ib) (ib_gens ib), BVItem i)
      | None => Some (ib, BVNone)
      end
    | _ => None
    end
  | BVar x => match en x with BVUnbound => None | v => Some (ib, v) end
  end.

(** ---- statements ---- *)

Inductive bres :=
| BNorm (ib : ibroker) (en : benv)
| BRet (ib : ibroker) (i : nat) (o : out)    (* `return <call on instance i>`; o = what the call gave *)
| BRaise (ib : ibroker)
| BStuck.

Definition do_call (t : bexpr) (m : imethod) (pos : list string) (kw : list (string * string))
           (ib : ibroker) (en : benv) : option (ibroker * nat * out) :=
  match beval t ib en with
  | Some (ib1, BVItem i) =>
    match to_values en pos, to_kw en kw with
    | Some vs, Some kvs =>
      match icall ib1 i (item_call m vs kvs) with
      | Some (ib2, x) => Some (ib2, i, x)
      | None => None
      end
    | _, _ => None
    end
  | _ => None
  end.

Fixpoint bwhile (run : ibroker -> benv -> bres) (fuel : nat) (ib : ibroker) (en : benv) : bres :=
  match fuel with
  | O => BStuck
  | S fuel' =>
    match ib_map ib with
    | [] => BNorm ib en
    | _ => match run ib en with
           | BNorm ib' en' => bwhile run fuel' ib' en'
           | r => r
           end
    end
  end.

Fixpoint bexec (st : bstmt) (ib : ibroker) (en : benv) {struct st} : bres :=
  let block := fix block (l : list bstmt) (ib : ibroker) (en : benv) : bres :=
    match l with
    | [] => BNorm ib en
    | a :: r => match bexec a ib en with
                | BNorm ib' en' => block r ib' en'
                | x => x
                end
    end in
  match st with
  | BReturnCall t m pos kw =>
    match do_call t m pos kw ib en with
    | Some (ib', _, OErr) => BRaise ib'
    | Some (ib', i, x) => BRet ib' i x
    | None => BStuck
    end
  | BAwaitCall t m pos kw =>
    match do_call t m pos kw ib en with
    | Some (ib', _, OErr) => BRaise ib'
    | Some (ib', _, _) => BNorm ib' en
    | None => BStuck
    end
  | BIfWalrus x e body =>
    match beval e ib en with
    | Some (ib1, BVNone) => BNorm ib1 (bset en x BVNone)
    | Some (ib1, BVItem i) => block body ib1 (bset en x (BVItem i))   (* a PubSubItem is truthy *)
    | _ => BStuck
    end
  | BWhileQueue body => bwhile (block body) (S (length (ib_map ib))) ib en
  | BPopItem x =>
    match ib_map ib with
    | (_, i) :: m => BNorm (mkIB m (ib_items ib) (ib_gens ib)) (bset en x (BVItem i))
    | [] => BRaise ib                            (* KeyError *)
    end
  end.

Fixpoint bblock (l : list bstmt) (ib : ibroker) (en : benv) : bres :=
  match l with
  | [] => BNorm ib en
  | a :: r => match bexec a ib en with
              | BNorm ib' en' => bblock r ib' en'
              | x => x
              end
  end.

(** binding of broker-level arguments (all given by the harness: key positional, the rest as in
    `obj.publish(k, v)`, `obj.subscribe(k, last=l)`) *)
Fixpoint bbind (params : list (string * option expr)) (pos : list bval) (kw : list (string * bval))
         (en : benv) : option benv :=
  match params with
  | [] => match pos with [] => Some en | _ => None end
  | (x, d) :: r =>
    match pos with
    | v :: pos' => bbind r pos' kw (bset en x v)
    | [] =>
      match assoc kw x with
      | Some v => bbind r [] kw (bset en x v)
      | None => match d with
                | Some (EBool b) => bbind r [] kw (bset en x (BVBool b))
                | _ => None
                end
      end
    end
  end.

Definition bmethod (params : list (string * option expr)) (body : list bstmt)
           (pos : list bval) (kw : list (string * bval)) (ib : ibroker) : bres :=
  match bbind params pos kw benv0 with
  | Some en => bblock body ib en
  | None => BStuck
  end.

Definition unit_out (r : bres) : option (ibroker * out) :=
  match r with
  | BNorm ib _ => Some (ib, OUnit)
  | BRaise ib => Some (ib, OErr)
  | _ => None
  end.

(** ---- the operations of a PubSub ---- *)

(** `subscribe(key, **kw)`: the generator object it returns gets the next handle *)
Definition ibsub (ib : ibroker) (k : key) (kw : list (string * bval)) : option (ibroker * out) :=
  match bmethod broker_subscribe_params broker_subscribe_body [BVKey k] kw ib with
  | BRet ib' i (OSid s) =>
    Some (mkIB (ib_map ib') (ib_items ib') (ib_gens ib' ++ [(i, s)]), OSid (length (ib_gens ib')))
  | _ => None
  end.

Definition ibstep (ib : ibroker) (o : bop) : option (ibroker * out) :=
  match o with
  | BPublish k v => unit_out (bmethod broker_publish_params broker_publish_body [BVKey k; BVVal v] [] ib)
  | BEnd k => unit_out (bmethod broker_end_params broker_end_body [BVKey k] [] ib)
  | BClose => unit_out (bmethod broker_close_params broker_close_body [] [] ib)
  | BLatest k =>
    match bmethod broker_latest_params broker_latest_body [BVKey k] [] ib with
    | BRet ib' _ (OLatest v) => Some (ib', OLatest v)
    | BRaise ib' => Some (ib', OErr)
    | _ => None
    end
  | BSub k l => ibsub ib k [("last"%string, BVBool l)]
  | BNext g =>
    match nth_error (ib_gens ib) g with
    | Some (i, s) => icall ib i (fun ps => istep ps (Next s))
    | None => Some (ib, OErr)
    end
  | BLeave g =>
    match nth_error (ib_gens ib) g with
    | Some (i, s) => icall ib i (fun ps => istep ps (Leave s))
    | None => Some (ib, OErr)
    end
  end.

Fixpoint ibrun_from (ib : ibroker) (ops : list bop) : option (ibroker * list out) :=
  match ops with
  | [] => Some (ib, [])
  | o :: r =>
    match ibstep ib o with
    | Some (ib', x) => match ibrun_from ib' r with
                       | Some (ib'', xs) => Some (ib'', x :: xs)
                       | None => None
                       end
    | None => None
    end
  end.

Definition ibouts (ops : list bop) : option (list out) :=
  option_map snd (ibrun_from (mkIB [] [] []) ops).

(** ---- abstraction, invariant ---- *)

Definition babs (ib : ibroker) : broker :=
  mkBroker (ib_map ib) (map abs (ib_items ib)) (ib_gens ib).

Definition bwf (ib : ibroker) : Prop :=
  (forall i ps, nth_error (ib_items ib) i = Some ps -> wf ps) /\
  (forall k i, In (k, i) (ib_map ib) -> (i < length (ib_items ib))%nat).

Definition btied (ib : ibroker) (o : bop) : Prop :=
  exists ib', ibstep ib o = Some (ib', snd (bstep (babs ib) o)) /\
              babs ib' = fst (bstep (babs ib) o) /\ bwf ib'.

(** the item operations are the item-level operations of PubSub/Interp.v *)
Lemma item_call_publish v : item_call MPublish [VEnt (Some (It v))] [] = fun ps => istep ps (Publish v).
Proof. reflexivity. Qed.
Lemma item_call_aclose : item_call MAclose [] [] = fun ps => istep ps Close.
Proof. reflexivity. Qed.
Lemma item_call_latest : item_call MLatest [] [] = fun ps => istep ps Latest.
Proof. reflexivity. Qed.
Lemma item_call_subscribe l : item_call MSubscribe [] [("last"%string, VBool l)] = fun ps => istep ps (Sub l true).
Proof. reflexivity. Qed.

Lemma icall_tie ib i o : bwf ib ->
  exists ib', icall ib i (fun ps => istep ps o) = Some (ib', snd (on_item (babs ib) i o)) /\
              babs ib' = fst (on_item (babs ib) i o) /\ bwf ib' /\
              ib_map ib' = ib_map ib /\ ib_gens ib' = ib_gens ib.
Proof.
  intros (Hw & Hv). unfold icall, on_item. cbn [babs b_items b_map b_gens]. rewrite nth_error_map.
  destruct (nth_error (ib_items ib) i) as [ps|] eqn:E; cbn [option_map].
  - destruct (tie_step ps o (Hw i ps E)) as (ps' & H1 & H2 & H3). rewrite H1.
    destruct (step (abs ps) o) as [it' x]. cbn [fst snd] in *. eexists. split; [reflexivity|].
    split; [|split; [|split; reflexivity]].
    + unfold babs. cbn. rewrite map_upd, H2. reflexivity.
    + split.
      * intros j pj. cbn. rewrite nth_upd. destruct (Nat.eqb_spec i j) as [->|].
        -- rewrite E. cbn. intros H. inversion H; subst. exact H3.
        -- apply Hw.
      * intros k j Hin. cbn. rewrite upd_length. apply (Hv k j Hin).
  - exists ib. split; [reflexivity|]. split; [reflexivity|]. split; [split; assumption|]. split; reflexivity.
Qed.

Lemma iinit0 : exists ps, iinit [] = Some ps /\ abs ps = new_item false /\ wf ps.
Proof.
  eexists; (split; [reflexivity|]); (split; [reflexivity|]);
    (split; [constructor|]); (split; [|intros [|s] g H; discriminate]);
    intros s; (split; [intros [] | intros (g & H & _); destruct s; discriminate]).
Qed.

Lemma lookup_valid m k i : lookup m k = Some i -> In (k, i) m.
Proof.
  induction m as [|[k' i'] m IH]; simpl; [discriminate|].
  destruct (Z.eqb_spec k k') as [->|]; intros H; [inversion H; auto | auto].
Qed.

Lemma iget_or_create_tie ib k : bwf ib ->
  exists ib' i, iget_or_create ib k = Some (ib', i) /\ (babs ib', i) = get_or_create (babs ib) k /\ bwf ib'
                /\ ib_gens ib' = ib_gens ib /\ (i < length (ib_items ib'))%nat.
Proof.
  intros (Hw & Hv). unfold iget_or_create, get_or_create. cbn [babs b_map b_items b_gens].
  destruct (lookup (ib_map ib) k) as [i|] eqn:El.
  - exists ib, i. split; [reflexivity|]. split; [reflexivity|]. split; [split; assumption|]. split; [reflexivity|].
    apply (Hv k i). apply lookup_valid. exact El.
  - destruct iinit0 as (ps0 & -> & Ha & Hw0). eexists. eexists. split; [reflexivity|].
    split; [|split; [|split]].
    + unfold babs. cbn. rewrite map_app, map_length. cbn. rewrite Ha. reflexivity.
    + split.
      * intros j pj. cbn. destruct (Nat.lt_ge_cases j (length (ib_items ib))) as [Hlt|Hge].
        -- rewrite nth_error_app1 by assumption. apply Hw.
        -- rewrite nth_error_app2 by assumption. destruct (j - length (ib_items ib))%nat as [|d]; cbn.
           ++ intros H. inversion H; subst. exact Hw0.
           ++ destruct d; discriminate.
      * intros k' j. cbn. rewrite app_length. cbn. intros [H|H].
        -- inversion H; subst. lia.
        -- apply Hv in H. lia.
    + reflexivity.
    + cbn. rewrite app_length. cbn. lia.
Qed.

Arguments iget_or_create : simpl never.
Arguments icall : simpl never.
Arguments item_call : simpl never.

(** ---- Publish / Latest / Subscribe-call: `self._queue[key].<method>(...)` ---- *)

Lemma on_item_publish_out b i v : snd (on_item b i (Publish v)) = OUnit \/ snd (on_item b i (Publish v)) = OErr.
Proof.
  unfold on_item. destruct (nth_error (b_items b) i) as [it|]; [|right; reflexivity].
  simpl. destruct (i_closed it); simpl; auto.
Qed.

Lemma do_call_getitem x k m pos kw ib en vs kvs :
  en x = BVKey k -> to_values en pos = Some vs -> to_kw en kw = Some kvs ->
  do_call (BGetItem x) m pos kw ib en =
  match iget_or_create ib k with
  | Some (ib1, i) => match icall ib1 i (item_call m vs kvs) with
                     | Some (ib2, o) => Some (ib2, i, o)
                     | None => None
                     end
  | None => None
  end.
Proof.
  intros H1 H2 H3. unfold do_call, beval. rewrite H1, H2, H3.
  destruct (iget_or_create ib k) as [[ib1 i]|]; reflexivity.
Qed.

Lemma do_call_var x i m pos kw ib en vs kvs :
  en x = BVItem i -> to_values en pos = Some vs -> to_kw en kw = Some kvs ->
  do_call (BVar x) m pos kw ib en =
  match icall ib i (item_call m vs kvs) with
  | Some (ib2, o) => Some (ib2, i, o)
  | None => None
  end.
Proof. intros H1 H2 H3. unfold do_call, beval. rewrite H1, H2, H3. reflexivity. Qed.

Lemma btie_publish ib k v : bwf ib -> btied ib (BPublish k v).
Proof.
  intros Hwf. unfold btied, ibstep, bmethod. cbn.
  erewrite (do_call_getitem "key" k); [|reflexivity..].
  destruct (iget_or_create_tie ib k Hwf) as (ib1 & i & -> & Hgc & Hwf1 & _). rewrite <- Hgc.
  rewrite item_call_publish.
  destruct (icall_tie ib1 i (Publish v) Hwf1) as (ib2 & -> & Hb & Hwf2 & _).
  destruct (on_item_publish_out (babs ib1) i v) as [Ho|Ho]; rewrite Ho; cbn; exists ib2; auto.
Qed.

Lemma on_item_latest_out b i : (exists v, snd (on_item b i Latest) = OLatest (Some v)) \/ snd (on_item b i Latest) = OErr.
Proof.
  unfold on_item. destruct (nth_error (b_items b) i) as [it|]; [|right; reflexivity].
  simpl. destruct (i_last_item it); simpl; eauto.
Qed.

Lemma btie_latest ib k : bwf ib -> btied ib (BLatest k).
Proof.
  intros Hwf. unfold btied, ibstep, bmethod. cbn.
  erewrite (do_call_getitem "key" k); [|reflexivity..].
  destruct (iget_or_create_tie ib k Hwf) as (ib1 & i & -> & Hgc & Hwf1 & _). rewrite <- Hgc.
  rewrite item_call_latest.
  destruct (icall_tie ib1 i Latest Hwf1) as (ib2 & -> & Hb & Hwf2 & _).
  destruct (on_item_latest_out (babs ib1) i) as [(v & Ho)|Ho]; rewrite Ho; cbn; exists ib2; auto.
Qed.

Lemma on_item_sub_out b i l c : (i < length (b_items b))%nat ->
  exists s, snd (on_item b i (Sub l c)) = OSid s.
Proof.
  intros Hi. unfold on_item. destruct (nth_error (b_items b) i) as [it|] eqn:E.
  - simpl. eauto.
  - apply nth_error_None in E. lia.
Qed.

Lemma btie_sub ib k l : bwf ib -> btied ib (BSub k l).
Proof.
  intros Hwf. unfold btied, ibstep, ibsub, bmethod. cbn.
  erewrite (do_call_getitem "key" k); [|reflexivity..].
  destruct (iget_or_create_tie ib k Hwf) as (ib1 & i & -> & Hgc & Hwf1 & Hg1 & Hi). rewrite <- Hgc.
  rewrite item_call_subscribe.
  destruct (icall_tie ib1 i (Sub l true) Hwf1) as (ib2 & -> & Hb & Hwf2 & Hm2 & Hg2).
  destruct (on_item_sub_out (babs ib1) i l true) as (s & Ho).
  { unfold babs. cbn. rewrite map_length. exact Hi. }
  destruct (on_item (babs ib1) i (Sub l true)) as [b2 x] eqn:Eo. cbn [fst snd] in *. subst x b2. cbn.
  eexists. split; [reflexivity|]. split.
  - unfold babs. cbn. reflexivity.
  - destruct Hwf2 as (A & B). split; [exact A | exact B].
Qed.

(** ---- End: `if q := self._queue.pop(key, None): await q.aclose()` ---- *)

Lemma on_item_close_out b i : (i < length (b_items b))%nat -> snd (on_item b i Close) = OUnit.
Proof.
  intros Hi. unfold on_item. destruct (nth_error (b_items b) i) as [it|] eqn:E.
  - simpl. destruct (i_closed it); reflexivity.
  - apply nth_error_None in E. lia.
Qed.

Lemma remove_key_in m k k' i : In (k', i) (remove_key m k) -> In (k', i) m.
Proof.
  induction m as [|[k0 i0] m IH]; simpl; [tauto|].
  destruct (Z.eqb k k0); simpl; [auto | intros [H|H]; auto].
Qed.

Lemma btie_end ib k : bwf ib -> btied ib (BEnd k).
Proof.
  intros Hwf. unfold btied, ibstep, bmethod. cbn.
  destruct (lookup (ib_map ib) k) as [i|] eqn:El; cbn.
  - set (ib1 := mkIB (remove_key (ib_map ib) k) (ib_items ib) (ib_gens ib)).
    assert (Hwf1 : bwf ib1).
    { destruct Hwf as (A & B). split; [exact A|]. intros k' j Hin. apply (B k' j). apply (remove_key_in _ _ _ _ Hin). }
    change (mkBroker (remove_key (ib_map ib) k) (map abs (ib_items ib)) (ib_gens ib)) with (babs ib1).
    rewrite item_call_aclose.
    destruct (icall_tie ib1 i Close Hwf1) as (ib2 & -> & Hb & Hwf2 & _).
    rewrite on_item_close_out in *.
    + cbn. exists ib2. auto.
    + unfold babs. cbn. rewrite map_length. apply (proj2 Hwf k i). apply lookup_valid. exact El.
  - exists ib. auto.
Qed.

(** ---- Close: `while self._queue: _, q = self._queue.popitem(); await q.aclose()` ---- *)

Arguments bwhile : simpl never.

Definition close_body : list bstmt :=
  Eval cbv in (match broker_close_body with [BWhileQueue b] => b | _ => [] end).

Lemma bexec_while body ib en :
  bexec (BWhileQueue body) ib en = bwhile (bblock body) (S (length (ib_map ib))) ib en.
Proof. reflexivity. Qed.

Lemma bwhile_S run n ib en : bwhile run (S n) ib en =
  match ib_map ib with
  | [] => BNorm ib en
  | _ => match run ib en with BNorm ib' en' => bwhile run n ib' en' | r => r end
  end.
Proof. reflexivity. Qed.

Lemma on_item_shape M its gs i o :
  on_item (mkBroker M its gs) i o =
  (mkBroker M (b_items (fst (on_item (mkBroker [] its gs) i o))) gs, snd (on_item (mkBroker [] its gs) i o)).
Proof.
  unfold on_item. cbn. destruct (nth_error its i) as [it|]; [|reflexivity].
  destruct (step it o). reflexivity.
Qed.

Lemma close_loop : forall m items gens en n,
  bwf (mkIB m items gens) -> (length m < n)%nat ->
  exists ib' en', bwhile (bblock close_body) n (mkIB m items gens) en = BNorm ib' en' /\
    babs ib' = fold_left (fun b ki => fst (on_item b (snd ki) Close)) m (mkBroker [] (map abs items) gens) /\
    bwf ib'.
Proof.
  induction m as [|[k i] m IH]; intros items gens en n Hwf Hn.
  - destruct n as [|n]; [simpl in Hn; lia|]. rewrite bwhile_S. cbn. eexists. eexists. split; [reflexivity|].
    split; [reflexivity | exact Hwf].
  - destruct n as [|n]; [simpl in Hn; lia|]. rewrite bwhile_S. cbn [ib_map].
    set (ib1 := mkIB m items gens).
    assert (Hwf1 : bwf ib1).
    { destruct Hwf as (A & B). split; [exact A|]. intros k' j Hin. apply (B k' j). right. exact Hin. }
    assert (Hi : (i < length items)%nat) by (apply (proj2 Hwf k i); left; reflexivity).
    destruct (icall_tie ib1 i Close Hwf1) as (ib2 & Hc & Hb & Hwf2 & Hm2 & Hg2).
    assert (Hrun : bblock close_body (mkIB ((k, i) :: m) items gens) en =
                   BNorm ib2 (bset en "q" (BVItem i))).
    { cbn. fold ib1. rewrite item_call_aclose, Hc. cbn. rewrite on_item_close_out; [reflexivity|].
      unfold babs. cbn. rewrite map_length. exact Hi. }
    rewrite Hrun. destruct ib2 as [m2 items2 gens2]. cbn in Hm2, Hg2. subst m2 gens2.
    destruct (IH items2 gens (bset en "q" (BVItem i)) n Hwf2) as (ib' & en' & -> & Ha & Hwf').
    { simpl in Hn. lia. }
    exists ib', en'. split; [reflexivity|]. split; [|exact Hwf'].
    rewrite Ha. cbn [fold_left snd]. f_equal.
    unfold babs in Hb. cbn [ib_map ib_items ib_gens ib1] in Hb.
    rewrite on_item_shape in Hb. cbn [fst] in Hb. inversion Hb as [Hitems].
    rewrite (on_item_shape [] (map abs items) gens i Close). cbn [fst]. rewrite <- Hitems. reflexivity.
Qed.

Lemma btie_close ib : bwf ib -> btied ib BClose.
Proof.
  intros Hwf. destruct ib as [m items gens].
  unfold btied, ibstep, bmethod. cbn [bbind broker_close_params broker_close_body bblock].
  rewrite bexec_while. fold close_body. cbn [ib_map].
  destruct (close_loop m items gens benv0 (S (length m)) Hwf) as (ib' & en' & -> & Ha & Hwf'); [lia|].
  exists ib'. cbn. auto.
Qed.

(** ---- Next / Leave on a generator handed out by `subscribe` ---- *)

Lemma btie_next ib g : bwf ib -> btied ib (BNext g).
Proof.
  intros Hwf. unfold btied, ibstep, bstep. cbn [babs b_gens].
  destruct (nth_error (ib_gens ib) g) as [[i s]|].
  - destruct (icall_tie ib i (Next s) Hwf) as (ib2 & -> & Hb & Hwf2 & _). exists ib2. auto.
  - exists ib. auto.
Qed.

Lemma btie_leave ib g : bwf ib -> btied ib (BLeave g).
Proof.
  intros Hwf. unfold btied, ibstep, bstep. cbn [babs b_gens].
  destruct (nth_error (ib_gens ib) g) as [[i s]|].
  - destruct (icall_tie ib i (Leave s) Hwf) as (ib2 & -> & Hb & Hwf2 & _). exists ib2. auto.
  - exists ib. auto.
Qed.

(** `PubSub.subscribe(key)` with `last` omitted: the default emitted into [broker_subscribe_params]
    (and, through the keyword call `subscribe(last=last)`, the default of `cache` in
    [item_subscribe_params]) must be the model's `BSub k true` *)
Theorem btie_sub_default ib k : bwf ib ->
  exists ib', ibsub ib k [] = Some (ib', snd (bstep (babs ib) (BSub k true))) /\
              babs ib' = fst (bstep (babs ib) (BSub k true)) /\ bwf ib'.
Proof.
  intros Hwf. change (ibsub ib k []) with (ibstep ib (BSub k true)). exact (btie_sub ib k true Hwf).
Qed.

(** ---- the tie of the broker, operation by operation and for whole histories ---- *)

Theorem btie_step ib o : bwf ib -> btied ib o.
Proof.
  intros Hwf. destruct o.
  - apply btie_publish; exact Hwf.
  - apply btie_end; exact Hwf.
  - apply btie_close; exact Hwf.
  - apply btie_latest; exact Hwf.
  - apply btie_sub; exact Hwf.
  - apply btie_next; exact Hwf.
  - apply btie_leave; exact Hwf.
Qed.

Lemma bwf_init : bwf (mkIB [] [] []).
Proof. split; [intros [|i] ps H; discriminate | intros k i []]. Qed.

Theorem btie_run : forall ops ib, bwf ib ->
  exists ib', ibrun_from ib ops = Some (ib', snd (brun_from (babs ib) ops)) /\
              babs ib' = fst (brun_from (babs ib) ops) /\ bwf ib'.
Proof.
  induction ops as [|o ops IH]; intros ib Hwf; simpl.
  - exists ib. auto.
  - destruct (btie_step ib o Hwf) as (ib1 & H1 & H2 & H3). rewrite H1.
    destruct (bstep (babs ib) o) as [b1 x] eqn:Es. simpl in *. subst b1.
    destruct (IH ib1 H3) as (ib2 & H4 & H5 & H6). rewrite H4.
    destruct (brun_from (babs ib1) ops) as [b2 xs]. simpl in *. exists ib2. auto.
Qed.

(** for EVERY history of broker operations: the regenerated code = the hand-written model *)
Theorem btie_outs ops : ibouts ops = Some (bouts ops).
Proof.
  unfold ibouts, bouts. destruct (btie_run ops (mkIB [] [] []) bwf_init) as (ib' & -> & _ & _).
  reflexivity.
Qed.

(** ---- transfer: the theorems of Props/C08.v about [outs]/[bouts] are theorems about
    the regenerated code ---- *)

From NL Require Import PubSub.Spec PubSub.Refine.

Corollary tie_refines_spec cache ops : iouts cache ops = Some (aouts cache ops).
Proof. rewrite tie_outs, refinement. reflexivity. Qed.
