(** Tie of the hand-written model PubSub/Model.v to the source: the REGENERATED method
    bodies of Gen/PubSubFuns.v (translate/pubsub_funs.py), run by the interpreter of
    PubSub/Interp.v, compute exactly the operations of the model.

    [abs] maps the interpreter's state (attributes + one frame per generator object:
    rest of the body, locals, queue) onto the model's record [item]; [wf] says that the
    frame of every suspended generator is one of the four rests the regenerated body
    of `subscribe` can be suspended at (built here from the regenerated body itself,
    nothing is copied by hand).  For every wf state and every operation,
      istep ps o = Some (ps', snd (step (abs ps) o)),  abs ps' = fst (step (abs ps) o),  wf ps'
    ([tie_step]); hence for every operation sequence the interpreter's outputs are the
    model's ([tie_outs]) and every theorem of Props/C08.v about [outs] is a theorem about
    the regenerated code. *)
From NL Require Import PubSub.Model PubSub.Syntax Gen.PubSubFuns PubSub.Interp.
From Coq Require Import Lia.
Open Scope Z_scope.

(** ---- the places at which the regenerated `subscribe` can be suspended ---- *)

Fixpoint last_stmt (s : stmt) : stmt := match s with SSeq _ b => last_stmt b | x => x end.

Definition sub_try : stmt := Eval cbv in (last_stmt item_subscribe_body).
Definition sub_fin : stmt := Eval cbv in (match sub_try with STry _ f => f | _ => SSkip end).
Definition sub_tbody : stmt := Eval cbv in (match sub_try with STry b _ => b | _ => SSkip end).
Definition sub_tail : stmt := Eval cbv in (match sub_tbody with SSeq _ t => t | _ => SSkip end).
Definition sub_loop : stmt := Eval cbv in (match sub_tail with SSeq _ w => w | _ => SSkip end).
Definition sub_wbody : stmt := Eval cbv in (match sub_loop with SWhileTrue b => b | _ => SSkip end).
Definition sub_fbody : stmt := Eval cbv in (match sub_tbody with SSeq (SIf _ (SFor2 _ _ _ b) _) _ => b | _ => SSkip end).

(** inside the replay loop, [rest] = the cached entries not looked at yet *)
Definition K_for (rest : list enumd) : stmt :=
  STry (SSeq (SFor2Run SSkip "idx" "item" (CList rest) sub_fbody) sub_tail) sub_fin.
(** at `yield last_item` *)
Definition K_last : stmt := STry (SSeq SSkip sub_loop) sub_fin.
(** at the `yield item` of the queue loop *)
Definition K_loop : stmt := STry (SWhileRun SSkip sub_wbody) sub_fin.
(** in `await q.get()` on an empty queue *)
Definition K_blk : stmt := STry (SWhileRun sub_wbody sub_wbody) sub_fin.

(** ---- abstraction onto the model's state ---- *)

Definition env_int (en : env) (x : string) : Z := match en x with VInt z => z | _ => 0 end.

Definition last_part (en : env) : list ent :=
  match en "last"%string, en "last_item"%string with
  | VBool true, VEnt (Some e) => [e]
  | _, _ => []
  end.

(** old data a suspended generator will still yield before it turns to its queue *)
Definition pending_of (k : stmt) (en : env) : list ent :=
  match k with
  | STry (SSeq (SFor2Run _ _ _ (CList rest) _) _) _ =>
    cached_before rest (env_int en "last_idx") ++ last_part en
  | _ => []
  end.

Definition abs_gen (g : gen) : sub :=
  match g_status g with
  | GFresh => mkSub (g_last g) (g_cache g) Fresh 0 [] []
  | GSusp k => mkSub (g_last g) (g_cache g) Active (env_int (g_env g) "last_idx")
                     (pending_of k (g_env g)) (g_queue g)
  | GDone => mkSub (g_last g) (g_cache g) Finished (env_int (g_env g) "last_idx") [] []
  end.

Definition abs (ps : pstate) : item :=
  mkItem (p_cache ps) (p_idx ps) (p_last_enum ps) (p_last_item ps) (p_closed ps)
         (map abs_gen (p_gens ps)).

(** ---- the invariant ---- *)

Definition suspended (g : gen) : Prop := exists k, g_status g = GSusp k.

Definition wf_gen (s : nat) (g : gen) : Prop :=
  match g_status g with
  | GFresh =>
    g_env g "last"%string = VBool (g_last g) /\ g_env g "cache"%string = VBool (g_cache g) /\
    g_env g "last_idx"%string = VUnbound /\ g_queue g = []
  | GSusp k =>
    ((exists rest, k = K_for rest) \/ k = K_last \/ k = K_loop \/ k = K_blk) /\
    g_env g "last"%string = VBool (g_last g) /\
    (exists li, g_env g "last_idx"%string = VInt li) /\
    g_env g "q"%string = VQueue s /\
    (exists oe, g_env g "last_item"%string = VEnt oe /\ oe <> Some End)
  | GDone => True
  end.

Definition wf (ps : pstate) : Prop :=
  NoDup (p_queues ps) /\
  (forall s, In s (p_queues ps) <-> exists g, nth_error (p_gens ps) s = Some g /\ suspended g) /\
  (forall s g, nth_error (p_gens ps) s = Some g -> wf_gen s g).

(** what [tie_step] says of one operation *)
Definition tied (ps : pstate) (o : op) : Prop :=
  exists ps', istep ps o = Some (ps', snd (step (abs ps) o)) /\
              abs ps' = fst (step (abs ps) o) /\ wf ps'.

(** ---- lists ---- *)

Lemma nth_error_ext {A} (l1 l2 : list A) : (forall n, nth_error l1 n = nth_error l2 n) -> l1 = l2.
Proof.
  revert l2; induction l1 as [|a l1 IH]; intros [|b l2] H; auto.
  - specialize (H 0%nat). discriminate.
  - specialize (H 0%nat). discriminate.
  - pose proof (H 0%nat) as H0. simpl in H0. inversion H0; subst. f_equal. apply IH.
    intros n. exact (H (S n)).
Qed.

Lemma nth_upd_same {A} (l : list A) n x : (n < length l)%nat -> nth_error (upd l n x) n = Some x.
Proof. revert n; induction l; intros [|n] H; simpl in *; try lia; auto. apply IHl. lia. Qed.

Lemma nth_upd_other {A} (l : list A) n m x : n <> m -> nth_error (upd l n x) m = nth_error l m.
Proof. revert n m; induction l; intros [|n] [|m] H; simpl; auto; try congruence. Qed.

Lemma nth_upd {A} (l : list A) n m x :
  nth_error (upd l n x) m = if Nat.eqb n m then option_map (fun _ => x) (nth_error l m) else nth_error l m.
Proof.
  destruct (Nat.eqb_spec n m) as [->|Hn].
  - destruct (nth_error l m) eqn:E; simpl.
    + apply nth_upd_same. apply nth_error_Some. congruence.
    + apply nth_error_None. apply nth_error_None in E. clear -E. revert m E.
      induction l; intros [|m] E; simpl in *; try lia. apply le_n_S. apply IHl. lia.
  - apply nth_upd_other. exact Hn.
Qed.

Lemma upd_upd {A} (l : list A) n x y : upd (upd l n x) n y = upd l n y.
Proof. revert n; induction l; intros [|n]; simpl; auto. f_equal. apply IHl. Qed.

Lemma upd_same {A} (l : list A) n x : nth_error l n = Some x -> upd l n x = l.
Proof. revert n; induction l; intros [|n] H; simpl in *; try discriminate; [congruence|]. f_equal. apply IHl. exact H. Qed.

Lemma map_upd {A B} (f : A -> B) (l : list A) n x : map f (upd l n x) = upd (map f l) n (f x).
Proof. revert n; induction l; intros [|n]; simpl; auto. f_equal. apply IHl. Qed.

Lemma upd_length {A} (l : list A) n x : length (upd l n x) = length l.
Proof. revert n; induction l; intros [|n]; simpl; auto. Qed.

(** ---- the state functions, in one normal form ---- *)

Definition put_gen (ps : pstate) (s : nat) (g : gen) : pstate := with_gens ps (upd (p_gens ps) s g).

Lemma set_queue_put ps s g q :
  nth_error (p_gens ps) s = Some g -> set_queue ps s q = put_gen ps s (gen_set_queue g q).
Proof. intros H. unfold set_queue. rewrite H. reflexivity. Qed.

Lemma upd_gen_put ps s g st en :
  nth_error (p_gens ps) s = Some g ->
  upd_gen ps s st en = put_gen ps s (mkGen (g_last g) (g_cache g) st en (g_queue g)).
Proof. intros H. unfold upd_gen. rewrite H. reflexivity. Qed.

Lemma put_gen_nth ps s g g' :
  nth_error (p_gens ps) s = Some g -> nth_error (p_gens (put_gen ps s g')) s = Some g'.
Proof. intros H. simpl. apply nth_upd_same. apply nth_error_Some. congruence. Qed.

Lemma put_put ps s a b : put_gen (put_gen ps s a) s b = put_gen ps s b.
Proof. unfold put_gen, with_gens. simpl. rewrite upd_upd. reflexivity. Qed.

Lemma abs_put ps s g' :
  abs (put_gen ps s g') = set_subs (abs ps) (upd (i_subs (abs ps)) s (abs_gen g')).
Proof. unfold abs, put_gen, with_gens, set_subs. simpl. rewrite map_upd. reflexivity. Qed.

Lemma abs_with_queues ps l : abs (with_queues ps l) = abs ps.
Proof. reflexivity. Qed.

Lemma abs_nth ps s : nth_error (i_subs (abs ps)) s = option_map abs_gen (nth_error (p_gens ps) s).
Proof. simpl. apply nth_error_map. Qed.

Lemma put_gen_same ps s g : nth_error (p_gens ps) s = Some g -> put_gen ps s g = ps.
Proof. intros H. unfold put_gen, with_gens. rewrite (upd_same _ _ _ H). destruct ps; reflexivity. Qed.

(** ---- `_enumerate`: the loop `for q in list(self._queues): await q.put(enumerated)` ---- *)

Definition add_entry (e : enumd) (g : gen) : gen := gen_set_queue g (g_queue g ++ [e]).

Definition push_all (e : enumd) (qs : list nat) (gens : list gen) : list gen :=
  fold_left (fun gs n => match nth_error gs n with Some g => upd gs n (add_entry e g) | None => gs end) qs gens.

Lemma push_all_nth e qs : forall gens s, NoDup qs ->
  nth_error (push_all e qs gens) s =
  option_map (fun g => if existsb (Nat.eqb s) qs then add_entry e g else g) (nth_error gens s).
Proof.
  induction qs as [|n r IH]; intros gens s Hnd; simpl.
  - destruct (nth_error gens s); reflexivity.
  - inversion Hnd as [|? ? Hnotin Hnd']; subst. unfold push_all in *. simpl.
    rewrite IH by assumption. destruct (Nat.eqb_spec s n) as [->|Hne]; simpl.
    + assert (Hex : existsb (Nat.eqb n) r = false).
      { destruct (existsb (Nat.eqb n) r) eqn:E; auto. apply existsb_exists in E. destruct E as (x & Hin & Hx).
        apply Nat.eqb_eq in Hx. subst x. contradiction. }
      rewrite Hex. destruct (nth_error gens n) as [g|] eqn:E.
      * rewrite nth_upd_same by (apply nth_error_Some; congruence). reflexivity.
      * rewrite E. reflexivity.
    + destruct (nth_error gens n) as [g|] eqn:E; auto.
      rewrite nth_upd_other by congruence. reflexivity.
Qed.

Lemma abs_add_entry e g : abs_gen (add_entry e g) = push e (abs_gen g).
Proof. unfold abs_gen, add_entry, push. simpl. destruct (g_status g); reflexivity. Qed.

Lemma push_all_abs e qs gens :
  NoDup qs -> (forall s g, nth_error gens s = Some g -> suspended g -> In s qs) ->
  map abs_gen (push_all e qs gens) = map (push e) (map abs_gen gens).
Proof.
  intros Hnd Hs. apply nth_error_ext. intros s.
  rewrite !nth_error_map, push_all_nth by assumption.
  destruct (nth_error gens s) as [g|] eqn:E; simpl; auto. f_equal.
  destruct (existsb (Nat.eqb s) qs) eqn:Ex; [apply abs_add_entry|].
  unfold abs_gen, push. destruct (g_status g) eqn:Est; simpl; auto.
  exfalso. assert (Hin : In s qs) by (apply (Hs s g E); eexists; eauto).
  assert (existsb (Nat.eqb s) qs = true) by (apply existsb_exists; exists s; split; auto; apply Nat.eqb_refl).
  congruence.
Qed.

Lemma push_all_inv e qs gens s g' : NoDup qs ->
  nth_error (push_all e qs gens) s = Some g' ->
  exists g, nth_error gens s = Some g /\ (g' = g \/ (g' = add_entry e g /\ In s qs)).
Proof.
  intros Hnd H. rewrite push_all_nth in H by assumption.
  destruct (nth_error gens s) as [g|]; [|discriminate]. exists g. split; auto.
  simpl in H. destruct (existsb (Nat.eqb s) qs) eqn:Ex; inversion H; auto.
  right. split; auto. apply existsb_exists in Ex. destruct Ex as (x & Hin & Hx).
  apply Nat.eqb_eq in Hx. subst x. exact Hin.
Qed.

Lemma push_all_fwd e qs gens s g : NoDup qs ->
  nth_error gens s = Some g ->
  exists g', nth_error (push_all e qs gens) s = Some g' /\ (g' = g \/ g' = add_entry e g).
Proof.
  intros Hnd H. rewrite push_all_nth by assumption. rewrite H. simpl.
  destruct (existsb (Nat.eqb s) qs); eexists; split; eauto.
Qed.

Lemma push_all_length e qs : forall gens, length (push_all e qs gens) = length gens.
Proof.
  induction qs as [|n r IH]; intros gens; auto. unfold push_all in *. simpl.
  destruct (nth_error gens n); rewrite IH; auto. apply upd_length.
Qed.

(** (honest label: the loop BODY `await q.put(enumerated)` is written out in this lemma's statement; the
    regenerated `_enumerate` must contain exactly this body for [enum_spec] to go through -- a pin of that
    one-statement fragment, everything around it is executed from the generated term) *)
Lemma for1_put i x : forall qs ps en,
  (forall n, In n qs -> (n < length (p_gens ps))%nat) ->
  en "enumerated"%string = VPair i (Some x) ->
  exists en', en' "enumerated"%string = VPair i (Some x) /\
    for1_list (exec no_enum 0 0 (SAwaitPut (EVar "q") (EVar "enumerated"))) "q" qs ps en
    = RNorm (with_gens ps (push_all (i, x) qs (p_gens ps))) en'.
Proof.
  induction qs as [|n r IH]; intros ps en Hv He.
  - exists en. split; auto. simpl. unfold with_gens. destruct ps; reflexivity.
  - assert (Hn : (n < length (p_gens ps))%nat) by (apply Hv; left; auto).
    destruct (nth_error (p_gens ps) n) as [g|] eqn:Eg; [|apply nth_error_None in Eg; lia].
    set (run := exec no_enum 0 0 (SAwaitPut (EVar "q") (EVar "enumerated"))) in *.
    assert (Hrun : run ps (set en "q" (VQueue n)) =
                   RNorm (put_gen ps n (gen_set_queue g (g_queue g ++ [(i, x)]))) (set en "q" (VQueue n))).
    { unfold run. cbn. rewrite He. unfold get_queue. rewrite Eg. cbn [option_map].
      rewrite (set_queue_put _ _ _ _ Eg). reflexivity. }
    cbn [for1_list]. rewrite Hrun.
    destruct (IH (put_gen ps n (gen_set_queue g (g_queue g ++ [(i, x)]))) (set en "q" (VQueue n))) as (en' & He' & IH').
    + intros m Hm. simpl. rewrite upd_length. apply Hv. right. exact Hm.
    + exact He.
    + exists en'. split; auto. rewrite IH'. unfold push_all. simpl. rewrite Eg. reflexivity.
Qed.

Lemma wf_gen_add_entry s e g : suspended g -> wf_gen s g -> wf_gen s (add_entry e g).
Proof. intros (k & Hk). unfold wf_gen. simpl. rewrite Hk. auto. Qed.

Lemma suspended_add_entry e g : suspended (add_entry e g) <-> suspended g.
Proof. unfold suspended. simpl. tauto. Qed.

(** distributing an entry to every registered queue keeps the invariant *)
Lemma wf_push_all ps e :
  wf ps -> wf (with_gens ps (push_all e (p_queues ps) (p_gens ps))).
Proof.
  intros (Hnd & Hq & Hg). split; [exact Hnd|]. split.
  - intros s. simpl. rewrite Hq. split.
    + intros (g & E & Hs). destruct (push_all_fwd e _ _ _ _ Hnd E) as (g' & E' & [->| ->]).
      * exists g. split; auto.
      * exists (add_entry e g). split; [auto|]. apply suspended_add_entry. exact Hs.
    + intros (g' & E' & Hs). destruct (push_all_inv e _ _ _ _ Hnd E') as (g & E & [->|(-> & _)]).
      * exists g. split; auto.
      * exists g. split; [auto|]. destruct Hs as (k & Hk). exists k. exact Hk.
  - intros s g' E'. simpl in E'. destruct (push_all_inv e _ _ _ _ Hnd E') as (g & E & [->|(-> & Hin)]).
    + apply Hg. exact E.
    + apply Hq in Hin. destruct Hin as (g0 & E0 & Hs0). rewrite E in E0. inversion E0; subst g0.
      apply wf_gen_add_entry; [exact Hs0 | apply Hg; exact E].
Qed.

Lemma wf_queues_valid ps : wf ps -> forall n, In n (p_queues ps) -> (n < length (p_gens ps))%nat.
Proof.
  intros (_ & Hq & _) n Hin. apply Hq in Hin. destruct Hin as (g & E & _).
  apply nth_error_Some. congruence.
Qed.

(** ---- symbolic execution: one equation per statement form ---- *)

Section ExecEq.
Variable ce : pstate -> value -> option pstate.
Variable me fu : nat.
Notation ex := (exec ce me fu).

Lemma exec_skip ps en : ex SSkip ps en = RNorm ps en.
Proof. reflexivity. Qed.
Lemma exec_seq a b ps en : ex (SSeq a b) ps en =
  match ex a ps en with
  | RNorm ps' en' => ex b ps' en'
  | RYield v k ps' en' => RYield v (SSeq k b) ps' en'
  | RBlock k ps' en' => RBlock (SSeq k b) ps' en'
  | r => r
  end.
Proof. reflexivity. Qed.
Lemma exec_assign ts e ps en : ex (SAssign ts e) ps en =
  match eval me ps en e with
  | Some v => match assign_all ts v ps en with Some (ps', en') => RNorm ps' en' | None => RStuck end
  | None => RStuck
  end.
Proof. reflexivity. Qed.
Lemma exec_if c t f ps en : ex (SIf c t f) ps en =
  match cond me ps en c with Some true => ex t ps en | Some false => ex f ps en | None => RStuck end.
Proof. reflexivity. Qed.
Lemma exec_raise ps en : ex SRaise ps en = RRaise ps en.
Proof. reflexivity. Qed.
Lemma exec_return e ps en : ex (SReturn e) ps en =
  match eval me ps en e with Some v => RRet v ps en | None => RStuck end.
Proof. reflexivity. Qed.
Lemma exec_break ps en : ex SBreak ps en = RBrk ps en.
Proof. reflexivity. Qed.
Lemma exec_yield e ps en : ex (SYield e) ps en =
  match eval me ps en e with Some v => RYield v SSkip ps en | None => RStuck end.
Proof. reflexivity. Qed.
Lemma exec_get x y q ps en : ex (SAwaitGet x y q) ps en =
  match eval me ps en q with
  | Some (VQueue n) =>
    match get_queue ps n with
    | Some [] => RBlock (SAwaitGet x y q) ps en
    | Some ((i, e) :: r) => RNorm (set_queue ps n r) (set (set en x (VInt i)) y (VEnt (Some e)))
    | None => RStuck
    end
  | _ => RStuck
  end.
Proof. reflexivity. Qed.
Lemma exec_callenum e ps en : ex (SCallEnumerate e) ps en =
  match eval me ps en e with
  | Some v => match ce ps v with Some ps' => RNorm ps' en | None => RStuck end
  | None => RStuck
  end.
Proof. reflexivity. Qed.
Lemma exec_append a e ps en : ex (SAppend a e) ps en =
  match a, eval me ps en e with
  | ACache, Some (VPair i (Some x)) =>
    match p_cache ps with
    | Some l => RNorm (with_cache ps (Some (l ++ [(i, x)]))) en
    | None => RStuck
    end
  | AQueues, Some (VQueue n) => RNorm (with_queues ps (p_queues ps ++ [n])) en
  | _, _ => RStuck
  end.
Proof. reflexivity. Qed.
Lemma exec_remove a e ps en : ex (SRemove a e) ps en =
  match a, eval me ps en e with
  | AQueues, Some (VQueue n) =>
    match remove_first n (p_queues ps) with
    | Some l => RNorm (with_queues ps l) en
    | None => RRaise ps en
    end
  | _, _ => RStuck
  end.
Proof. reflexivity. Qed.
Lemma exec_clear a ps en : ex (SClear a) ps en =
  match a, p_cache ps with
  | ACache, Some _ => RNorm (with_cache ps (Some [])) en
  | _, _ => RStuck
  end.
Proof. reflexivity. Qed.
Lemma exec_for2 x y e body ps en : ex (SFor2 x y e body) ps en =
  match eval me ps en e with
  | Some (VEnums l) => for2_list (ex body) x y body l ps en
  | Some (VLive a) => for2_live (ex body) x y body a fu 0 ps en
  | _ => RStuck
  end.
Proof. reflexivity. Qed.
Lemma exec_for2run cur x y c body ps en : ex (SFor2Run cur x y c body) ps en =
  match ex cur ps en with
  | RNorm ps' en' =>
    match c with
    | CList r => for2_list (ex body) x y body r ps' en'
    | CLive a pos => for2_live (ex body) x y body a fu pos ps' en'
    end
  | RBrk ps' en' => RNorm ps' en'
  | RYield v k ps' en' => RYield v (SFor2Run k x y c body) ps' en'
  | RBlock k ps' en' => RBlock (SFor2Run k x y c body) ps' en'
  | r => r
  end.
Proof. reflexivity. Qed.
Lemma exec_for1 x e body ps en : ex (SFor1 x e body) ps en =
  match eval me ps en e with
  | Some (VQueueList l) => for1_list (ex body) x l ps en
  | _ => RStuck
  end.
Proof. reflexivity. Qed.
Lemma exec_while body ps en : ex (SWhileTrue body) ps en = while_loop (ex body) body fu ps en.
Proof. reflexivity. Qed.
Lemma exec_whilerun cur body ps en : ex (SWhileRun cur body) ps en =
  match ex cur ps en with
  | RNorm ps' en' => while_loop (ex body) body fu ps' en'
  | RBrk ps' en' => RNorm ps' en'
  | RYield v k ps' en' => RYield v (SWhileRun k body) ps' en'
  | RBlock k ps' en' => RBlock (SWhileRun k body) ps' en'
  | r => r
  end.
Proof. reflexivity. Qed.
Lemma exec_try body fin ps en : ex (STry body fin) ps en =
  match ex body ps en with
  | RYield v k ps' en' => RYield v (STry k fin) ps' en'
  | RBlock k ps' en' => RBlock (STry k fin) ps' en'
  | RStuck => RStuck
  | RNorm ps' en' as r0 | RRet _ ps' en' as r0 | RBrk ps' en' as r0 | RRaise ps' en' as r0 =>
    after_fin r0 (ex fin ps' en')
  end.
Proof. reflexivity. Qed.
End ExecEq.

Arguments exec : simpl never.
Arguments while_loop : simpl never.
Arguments for2_list : simpl never.
Arguments for2_live : simpl never.
Arguments for1_list : simpl never.
Arguments gen_fuel : simpl never.
Arguments set_queue : simpl never.
Arguments get_queue : simpl never.
Arguments upd_gen : simpl never.
Arguments put_gen : simpl never.
Arguments push_all : simpl never.

Ltac ex1 :=
  first [ rewrite exec_seq | rewrite exec_if | rewrite exec_assign | rewrite exec_skip
        | rewrite exec_raise | rewrite exec_return | rewrite exec_break | rewrite exec_yield
        | rewrite exec_get | rewrite exec_callenum | rewrite exec_append | rewrite exec_remove
        | rewrite exec_clear | rewrite exec_for2 | rewrite exec_for2run | rewrite exec_for1
        | rewrite exec_while | rewrite exec_whilerun | rewrite exec_try ].
Ltac exs := repeat (ex1; cbn).

Lemma wf_ext a b : p_queues a = p_queues b -> p_gens a = p_gens b -> wf a -> wf b.
Proof. unfold wf. intros -> ->. auto. Qed.

Lemma enum_finish ps PS i x en :
  wf ps -> p_queues PS = p_queues ps -> p_gens PS = p_gens ps ->
  en "enumerated"%string = VPair i (Some x) ->
  exists en', for1_list (exec no_enum 0 0 (SAwaitPut (EVar "q") (EVar "enumerated"))) "q" (p_queues ps) PS en
              = RNorm (with_gens PS (push_all (i, x) (p_queues ps) (p_gens ps))) en'.
Proof.
  intros Hwf Hq Hg He. destruct (for1_put i x (p_queues ps) PS en) as (en' & _ & H); auto.
  - rewrite Hg. apply wf_queues_valid. exact Hwf.
  - exists en'. rewrite H, Hg. reflexivity.
Qed.

(** `await self._enumerate(e)` on the regenerated body = [enumerate] of the model *)
Lemma enum_spec ps e : wf ps ->
  exists ps', enum_sem ps (VEnt (Some e)) = Some ps' /\ abs ps' = enumerate (abs ps) e /\ wf ps'
              /\ p_closed ps' = p_closed ps /\ p_last_item ps' = p_last_item ps.
Proof.
  intros Hwf. unfold enum_sem. cbn. unfold item_enumerate_body. exs.
  destruct (p_cache ps) as [c|] eqn:Ec; cbn; exs.
  - match goal with |- context [for1_list _ _ _ ?PS ?EN] =>
      destruct (enum_finish ps PS (p_idx ps + 1) e EN Hwf eq_refl eq_refl eq_refl) as (en' & ->) end.
    eexists. split; [reflexivity|]. split; [|split; [|split; reflexivity]].
    + unfold abs, enumerate. cbn. rewrite Ec.
      rewrite push_all_abs; [reflexivity|apply Hwf|]. intros s g E Hs. apply Hwf. eauto.
    + eapply wf_ext; [| |apply (wf_push_all ps (p_idx ps + 1, e) Hwf)]; reflexivity.
  - match goal with |- context [for1_list _ _ _ ?PS ?EN] =>
      destruct (enum_finish ps PS (p_idx ps + 1) e EN Hwf eq_refl eq_refl eq_refl) as (en' & ->) end.
    eexists. split; [reflexivity|]. split; [|split; [|split; reflexivity]].
    + unfold abs, enumerate. cbn. rewrite Ec.
      rewrite push_all_abs; [reflexivity|apply Hwf|]. intros s g E Hs. apply Hwf. eauto.
    + eapply wf_ext; [| |apply (wf_push_all ps (p_idx ps + 1, e) Hwf)]; reflexivity.
Qed.

Arguments enum_sem : simpl never.

(** ---- Publish, Clear, Close (aclose), Latest, Sub ---- *)

Lemma tie_publish ps v : wf ps -> tied ps (Publish v).
Proof.
  intros Hwf. unfold tied, istep, run_method. cbn. unfold item_publish_body. exs.
  destruct (p_closed ps) eqn:Ecl; cbn; exs.
  - exists ps. auto.
  - match goal with |- context [enum_sem ?PS ?X] =>
      destruct (enum_spec PS (It v)) as (ps' & -> & Ha & Hw & _) end.
    + eapply wf_ext; [| |exact Hwf]; reflexivity.
    + exists ps'. cbn. split; [reflexivity|]. split; [|exact Hw]. rewrite Ha. reflexivity.
Qed.

Lemma tie_clear ps : wf ps -> tied ps Clear.
Proof.
  intros Hwf. unfold tied, istep, run_method. cbn. unfold item_clear_body. exs.
  destruct (p_closed ps) eqn:Ecl; cbn; exs.
  - exists ps. auto.
  - destruct (p_cache ps) as [c|] eqn:Ec; cbn; exs.
    + eexists. split; [reflexivity|]. split.
      * unfold abs, do_clear. cbn. rewrite Ec. reflexivity.
      * eapply wf_ext; [| |exact Hwf]; reflexivity.
    + eexists. split; [reflexivity|]. split.
      * unfold abs, do_clear. cbn. rewrite Ec. reflexivity.
      * eapply wf_ext; [| |exact Hwf]; reflexivity.
Qed.

Lemma tie_close ps : wf ps -> tied ps Close.
Proof.
  intros Hwf. unfold tied, istep, run_method. cbn. unfold item_aclose_body. exs.
  destruct (p_closed ps) eqn:Ecl; cbn; exs.
  - exists ps. auto.
  - match goal with |- context [enum_sem ?PS ?X] =>
      destruct (enum_spec PS End) as (ps' & -> & Ha & Hw & _) end.
    + eapply wf_ext; [| |exact Hwf]; reflexivity.
    + exists ps'. cbn. split; [reflexivity|]. split; [|exact Hw]. rewrite Ha. reflexivity.
Qed.

Lemma tie_latest ps : wf ps -> tied ps Latest.
Proof.
  intros Hwf. unfold tied, istep, run_method. cbn. unfold item_latest_body. exs.
  destruct (p_last_item ps) eqn:El; unfold cond; cbn; rewrite El; cbn; exs; try rewrite El; exists ps; auto.
Qed.



Lemma tie_sub ps l c : wf ps -> tied ps (Sub l c).
Proof.
  intros Hwf. unfold tied, istep, isub, isub_call. cbn. rewrite map_length.
  eexists. split; [reflexivity|]. split.
  - unfold abs. cbn. rewrite map_app. reflexivity.
  - destruct Hwf as (Hnd & Hq & Hg). split; [exact Hnd|]. split.
    + intros s. cbn. rewrite Hq. split.
      * intros (g & E & Hs). exists g. split; auto. rewrite nth_error_app1; auto.
        apply nth_error_Some. congruence.
      * intros (g & E & Hs). destruct (Nat.lt_ge_cases s (length (p_gens ps))) as [Hlt|Hge].
        -- rewrite nth_error_app1 in E by assumption. eauto.
        -- rewrite nth_error_app2 in E by assumption.
           destruct (s - length (p_gens ps))%nat as [|d]; simpl in E.
           ++ inversion E; subst. destruct Hs as (k & Hk). discriminate.
           ++ destruct d; discriminate.
    + intros s g E. cbn in E. destruct (Nat.lt_ge_cases s (length (p_gens ps))) as [Hlt|Hge].
      * rewrite nth_error_app1 in E by assumption. apply Hg. exact E.
      * rewrite nth_error_app2 in E by assumption.
        destruct (s - length (p_gens ps))%nat as [|d]; simpl in E.
        -- inversion E; subst. cbv. auto.
        -- destruct d; discriminate.
Qed.

(** ---- the generator: the queue loop ---- *)

Definition agree (en en' : env) : Prop :=
  forall x, x <> "idx"%string -> x <> "item"%string -> en' x = en x.

Lemma agree_refl en : agree en en.
Proof. intros x _ _. reflexivity. Qed.

Lemma agree_trans a b c : agree a b -> agree b c -> agree a c.
Proof. intros H1 H2 x Hi Ht. rewrite H2, H1; auto. Qed.

Lemma agree_set2 en i e : agree en (set (set en "idx" i) "item" e).
Proof.
  intros x Hi Ht. unfold set.
  destruct (String.eqb_spec "item" x); [congruence|]. destruct (String.eqb_spec "idx" x); [congruence|]. reflexivity.
Qed.

Lemma while_loop_S run b n ps en : while_loop run b (S n) ps en =
  match run ps en with
  | RNorm ps' en' => while_loop run b n ps' en'
  | RBrk ps' en' => RNorm ps' en'
  | RYield v k ps' en' => RYield v (SWhileRun k b) ps' en'
  | RBlock k ps' en' => RBlock (SWhileRun k b) ps' en'
  | r' => r'
  end.
Proof. reflexivity. Qed.

(** one iteration of `while True: idx, item = await q.get(); ...` *)
Lemma wbody_spec s F ps en g li :
  nth_error (p_gens ps) s = Some g ->
  en "q"%string = VQueue s -> en "last_idx"%string = VInt li ->
  exec enum_sem s F sub_wbody ps en =
  match g_queue g with
  | [] => RBlock sub_wbody ps en
  | (i, e) :: r =>
    let ps1 := put_gen ps s (gen_set_queue g r) in
    let en1 := set (set en "idx" (VInt i)) "item" (VEnt (Some e)) in
    match e with
    | End => RRet VNone ps1 en1
    | It v => if li <? i then RYield (VEnt (Some (It v))) SSkip ps1 en1 else RNorm ps1 en1
    end
  end.
Proof.
  intros E Hq Hl. let b := eval cbv in sub_wbody in change sub_wbody with b.
  exs. rewrite Hq. unfold get_queue. rewrite E. cbn.
  destruct (g_queue g) as [|[i e] r]; [reflexivity|]. cbn.
  rewrite (set_queue_put _ _ _ _ E). exs.
  destruct e as [v|]; unfold cond; cbn; exs; [|reflexivity].
  unfold cond; cbn. rewrite Hl. cbn. destruct (li <? i); cbn; exs; reflexivity.
Qed.

Lemma gen_set_queue_same g : gen_set_queue g (g_queue g) = g.
Proof. destruct g; reflexivity. Qed.

(** the queue loop of the regenerated body = [read_queue] of the model *)
Lemma while_spec s F li : forall qu n ps en g,
  nth_error (p_gens ps) s = Some g -> g_queue g = qu ->
  en "q"%string = VQueue s -> en "last_idx"%string = VInt li -> (length qu < n)%nat ->
  exists en', agree en en' /\
    while_loop (exec enum_sem s F sub_wbody) sub_wbody n ps en =
    match read_queue li qu with
    | (q', OItem v, _) => RYield (VEnt (Some (It v))) (SWhileRun SSkip sub_wbody) (put_gen ps s (gen_set_queue g q')) en'
    | (q', OStop, _) => RRet VNone (put_gen ps s (gen_set_queue g q')) en'
    | (q', _, _) => RBlock (SWhileRun sub_wbody sub_wbody) (put_gen ps s (gen_set_queue g q')) en'
    end.
Proof.
  induction qu as [|[i e] r IH]; intros n ps en g E Hqu Hq Hl Hn.
  - destruct n as [|n]; [simpl in Hn; lia|]. exists en. split; [apply agree_refl|].
    rewrite while_loop_S, (wbody_spec s F ps en g li E Hq Hl), Hqu. cbv beta iota zeta.
    cbn [read_queue]. replace (gen_set_queue g []) with g by (rewrite <- Hqu; symmetry; apply gen_set_queue_same).
    rewrite (put_gen_same _ _ _ E). reflexivity.
  - destruct n as [|n]; [simpl in Hn; lia|].
    rewrite while_loop_S, (wbody_spec s F ps en g li E Hq Hl), Hqu. cbv beta iota zeta.
    cbn [read_queue]. destruct e as [v|].
    + destruct (li <? i) eqn:Elt.
      * eexists. split; [apply agree_set2|]. reflexivity.
      * destruct (IH n (put_gen ps s (gen_set_queue g r)) (set (set en "idx" (VInt i)) "item" (VEnt (Some (It v))))
                   (gen_set_queue g r)) as (en' & Hag & ->).
        -- apply (put_gen_nth _ _ _ _ E).
        -- reflexivity.
        -- exact Hq.
        -- exact Hl.
        -- simpl in Hn. lia.
        -- exists en'. split; [eapply agree_trans; [apply agree_set2|exact Hag]|].
           destruct (read_queue li r) as [[q' o] fin]. rewrite !put_put. reflexivity.
    + eexists. split; [apply agree_set2|]. reflexivity.
Qed.

(** ---- the generator: `finally: self._queues.remove(q)` ---- *)

Lemma remove_first_spec s : forall l, In s l ->
  exists l', remove_first s l = Some l' /\
    (NoDup l -> NoDup l' /\ forall x, In x l' <-> (x <> s /\ In x l)).
Proof.
  induction l as [|a l IH]; intros Hin; [destruct Hin|]. simpl.
  destruct (Nat.eqb_spec s a) as [->|Hne].
  - exists l. split; auto. intros Hnd. inversion Hnd; subst. split; auto.
    intros x. split.
    + intros Hx. split; [intros ->; contradiction | right; exact Hx].
    + intros (Hx & [->|Hi]); [congruence | exact Hi].
  - destruct Hin as [->|Hin]; [congruence|]. destruct (IH Hin) as (l' & -> & Hl'). exists (a :: l'). split; auto.
    intros Hnd. inversion Hnd; subst. destruct (Hl' H2) as (Hnd' & Hi). split.
    + constructor; auto. intros Ha. apply Hi in Ha. tauto.
    + intros x. simpl. rewrite Hi. split.
      * intros [->|(H3 & H4)]; [split; auto | split; auto].
      * intros (H3 & [->|H4]); auto.
Qed.

(** the `finally` clause of the regenerated body *)
Lemma fin_spec s F ps en l' :
  en "q"%string = VQueue s -> remove_first s (p_queues ps) = Some l' ->
  exec enum_sem s F sub_fin ps en = RNorm (with_queues ps l') en.
Proof.
  intros Hq Hr. let b := eval cbv in sub_fin in change sub_fin with b.
  exs. rewrite Hq, Hr. reflexivity.
Qed.

(** one iteration of the replay loop *)
Lemma fbody_spec s F ps en li i e :
  en "last_idx"%string = VInt li ->
  exec enum_sem s F sub_fbody ps (set (set en "idx" (VInt i)) "item" (VEnt (Some e))) =
  let en1 := set (set en "idx" (VInt i)) "item" (VEnt (Some e)) in
  if i <? li then match e with
                  | End => RRet VNone ps en1
                  | It v => RYield (VEnt (Some (It v))) SSkip ps en1
                  end
  else RBrk ps en1.
Proof.
  intros Hl. let b := eval cbv in sub_fbody in change sub_fbody with b.
  rewrite (Z.ltb_antisym li i).
  exs. unfold cond. cbn. rewrite Hl. cbn. destruct (li <=? i); cbn; exs; [reflexivity|].
  destruct e; unfold cond; cbn; exs; reflexivity.
Qed.

Lemma for2_list_cons run x y body i e r ps en : for2_list run x y body ((i, e) :: r) ps en =
  match run ps (set (set en x (VInt i)) y (VEnt (Some e))) with
  | RNorm ps' en' => for2_list run x y body r ps' en'
  | RBrk ps' en' => RNorm ps' en'
  | RYield v k ps' en' => RYield v (SFor2Run k x y (CList r) body) ps' en'
  | RBlock k ps' en' => RBlock (SFor2Run k x y (CList r) body) ps' en'
  | r' => r'
  end.
Proof. reflexivity. Qed.

(** the replay loop from [rest] on *)
Lemma for_spec s F ps en li rest :
  en "last_idx"%string = VInt li ->
  exists en', agree en en' /\
  for2_list (exec enum_sem s F sub_fbody) "idx" "item" sub_fbody rest ps en =
  match rest with
  | (i, e) :: r =>
    if i <? li then match e with
                    | End => RRet VNone ps en'
                    | It v => RYield (VEnt (Some (It v))) (SFor2Run SSkip "idx" "item" (CList r) sub_fbody) ps en'
                    end
    else RNorm ps en'
  | [] => RNorm ps en'
  end.
Proof.
  intros Hl. destruct rest as [|[i e] r].
  - exists en. split; [apply agree_refl | reflexivity].
  - exists (set (set en "idx" (VInt i)) "item" (VEnt (Some e))). split; [apply agree_set2|].
    rewrite for2_list_cons, (fbody_spec s F ps en li i e Hl). cbv zeta.
    destruct (i <? li); [destruct e|]; reflexivity.
Qed.

(** ---- the generator: one `__anext__` from each suspension point ---- *)

(** what the code below the prologue relies on in the locals *)
Record genv (s : nat) (en : env) (l : bool) (li : Z) (oe : option ent) : Prop := {
  ge_last : en "last"%string = VBool l;
  ge_li : en "last_idx"%string = VInt li;
  ge_q : en "q"%string = VQueue s;
  ge_item : en "last_item"%string = VEnt oe;
  ge_ne : oe <> Some End
}.

Lemma genv_agree s en en' l li oe : genv s en l li oe -> agree en en' -> genv s en' l li oe.
Proof.
  intros [H1 H2 H3 H4 H5] Ha. split; auto; rewrite Ha; auto; discriminate.
Qed.

Lemma last_part_agree en en' : agree en en' -> last_part en' = last_part en.
Proof. intros Ha. unfold last_part. rewrite !Ha by discriminate. reflexivity. Qed.

Lemma env_int_agree en en' : agree en en' -> env_int en' "last_idx" = env_int en "last_idx".
Proof. intros Ha. unfold env_int. rewrite Ha by discriminate. reflexivity. Qed.

Definition shape (k : stmt) : Prop :=
  (exists rest, k = K_for rest) \/ k = K_last \/ k = K_loop \/ k = K_blk.

Lemma shape_for rest : shape (K_for rest).
Proof. left. eauto. Qed.
Lemma shape_last : shape K_last.
Proof. right; left; reflexivity. Qed.
Lemma shape_loop : shape K_loop.
Proof. right; right; left; reflexivity. Qed.
Lemma shape_blk : shape K_blk.
Proof. right; right; right; reflexivity. Qed.

Lemma read_queue_cases li : forall q q' o fin, read_queue li q = (q', o, fin) ->
  (fin = true /\ o = OStop) \/ (fin = false /\ ((o = OBlocked /\ q' = []) \/ exists v, o = OItem v)).
Proof.
  induction q as [|[i e] r IH]; intros q' o fin H; simpl in H.
  - inversion H; subst. right. split; auto.
  - destruct e as [v|].
    + destruct (li <? i); [inversion H; subst; right; split; eauto | eauto].
    + inversion H; subst. left. auto.
Qed.

Lemma upd_gen_put2 ps s g q' st en :
  nth_error (p_gens ps) s = Some g ->
  upd_gen (put_gen ps s (gen_set_queue g q')) s st en = put_gen ps s (mkGen (g_last g) (g_cache g) st en q').
Proof.
  intros E. rewrite (upd_gen_put _ _ _ _ _ (put_gen_nth _ _ _ _ E)), put_put. reflexivity.
Qed.

(** result of one `__anext__`, in the form the final assembly uses *)
Definition outcome (s : nat) (ps : pstate) (g : gen) (lq : list nat) (en : env)
           (r : option (pstate * out)) (sb : sub * out) : Prop :=
  exists st en' q' Q',
    r = Some (put_gen (with_queues ps Q') s (mkGen (g_last g) (g_cache g) st en' q'), snd sb) /\
    abs_gen (mkGen (g_last g) (g_cache g) st en' q') = fst sb /\
    agree en en' /\
    ((exists k, st = GSusp k /\ shape k /\ Q' = p_queues ps) \/ (st = GDone /\ Q' = lq)).

Lemma with_queues_same ps : with_queues ps (p_queues ps) = ps.
Proof. destruct ps; reflexivity. Qed.

(** from any of the places in / before the queue loop *)
Lemma core_loop s F W n ps en en0 g l li oe lq :
  nth_error (p_gens ps) s = Some g -> genv s en0 l li oe ->
  (length (g_queue g) < n)%nat -> remove_first s (p_queues ps) = Some lq ->
  exec enum_sem s F W ps en = while_loop (exec enum_sem s F sub_wbody) sub_wbody n ps en0 ->
  outcome s ps g lq en0 (settle s (exec enum_sem s F (STry W sub_fin) ps en))
          (resume_sub (mkSub (g_last g) (g_cache g) Active li [] (g_queue g))).
Proof.
  intros E Hen Hn Hr HW. rewrite exec_try, HW.
  destruct (while_spec s F li (g_queue g) n ps en0 g E eq_refl (ge_q _ _ _ _ _ Hen) (ge_li _ _ _ _ _ Hen) Hn)
    as (en' & Hag & ->).
  unfold resume_sub. cbn [s_phase s_pending s_last_idx s_queue s_last s_cache].
  destruct (read_queue li (g_queue g)) as [[q' o] fin] eqn:Erq.
  destruct (read_queue_cases _ _ _ _ _ Erq) as [(-> & ->)|(-> & [(-> & ->)|(v & ->)])].
  - (* _END *)
    rewrite (fin_spec s F _ en' lq); [|rewrite Hag by discriminate; apply Hen | exact Hr].
    cbn [after_fin settle]. exists GDone, en', q', lq. split; [|split; [|split]].
    + change (with_queues (put_gen ps s (gen_set_queue g q')) lq) with (put_gen (with_queues ps lq) s (gen_set_queue g q')).
      rewrite upd_gen_put2 by exact E. reflexivity.
    + unfold abs_gen, finish_sub. cbn. rewrite (env_int_agree _ _ Hag). unfold env_int. rewrite (ge_li _ _ _ _ _ Hen). reflexivity.
    + exact Hag.
    + right. auto.
  - (* blocked *)
    cbn [settle]. exists (GSusp K_blk), en', [], (p_queues ps). split; [|split; [|split]].
    + rewrite upd_gen_put2 by exact E. rewrite with_queues_same. reflexivity.
    + unfold abs_gen. cbn. rewrite (env_int_agree _ _ Hag). unfold env_int. rewrite (ge_li _ _ _ _ _ Hen). reflexivity.
    + exact Hag.
    + left. exists K_blk. auto using shape_blk.
  - (* an item *)
    cbn [settle]. exists (GSusp K_loop), en', q', (p_queues ps). split; [|split; [|split]].
    + rewrite upd_gen_put2 by exact E. rewrite with_queues_same. reflexivity.
    + unfold abs_gen. cbn. rewrite (env_int_agree _ _ Hag). unfold env_int. rewrite (ge_li _ _ _ _ _ Hen). reflexivity.
    + exact Hag.
    + left. exists K_loop. auto using shape_loop.
Qed.

(** `if last and last_item is not _START: yield last_item`, then the queue loop *)
Lemma tail_spec s F ps en l li oe :
  genv s en l li oe ->
  exec enum_sem s F sub_tail ps en =
  match l, oe with
  | true, Some _ => RYield (VEnt oe) (SSeq SSkip sub_loop) ps en
  | _, _ => while_loop (exec enum_sem s F sub_wbody) sub_wbody F ps en
  end.
Proof.
  intros [H1 H2 H3 H4 H5]. let b := eval cbv in sub_tail in change sub_tail with b.
  exs. unfold cond. cbn. rewrite H1. cbn. destruct l; cbn.
  - rewrite H4. cbn. destruct oe as [[v|]|]; cbn; exs; reflexivity.
  - reflexivity.
Qed.

(** after the replay loop has ended (or was skipped): [X] stands for it *)
Lemma core_tail s F X ps en en0 g l li oe lq :
  nth_error (p_gens ps) s = Some g -> genv s en0 l li oe ->
  (length (g_queue g) < F)%nat -> remove_first s (p_queues ps) = Some lq ->
  exec enum_sem s F X ps en = RNorm ps en0 ->
  outcome s ps g lq en0 (settle s (exec enum_sem s F (STry (SSeq X sub_tail) sub_fin) ps en))
          (resume_sub (mkSub (g_last g) (g_cache g) Active li (last_part en0) (g_queue g))).
Proof.
  intros E Hen Hn Hr HX.
  assert (Hcase : (exists v, l = true /\ oe = Some (It v)) \/ last_part en0 = [] /\
                  exec enum_sem s F (SSeq X sub_tail) ps en = while_loop (exec enum_sem s F sub_wbody) sub_wbody F ps en0).
  { rewrite exec_seq, HX, (tail_spec s F ps en0 l li oe Hen). unfold last_part.
    rewrite (ge_last _ _ _ _ _ Hen), (ge_item _ _ _ _ _ Hen).
    destruct l; [|right; split; reflexivity]. destruct oe as [[v|]|].
    - left. eauto.
    - exfalso. apply (ge_ne _ _ _ _ _ Hen). reflexivity.
    - right. split; reflexivity. }
  destruct Hcase as [(v & -> & ->)|(Hlp & HW)].
  - rewrite exec_try, exec_seq, HX, (tail_spec s F ps en0 true li (Some (It v)) Hen).
    unfold last_part. rewrite (ge_last _ _ _ _ _ Hen), (ge_item _ _ _ _ _ Hen).
    cbn [settle resume_sub s_phase s_pending s_last s_cache s_last_idx s_queue].
    exists (GSusp K_last), en0, (g_queue g), (p_queues ps). split; [|split; [|split]].
    + rewrite (upd_gen_put _ _ _ _ _ E), with_queues_same. reflexivity.
    + unfold abs_gen. cbn. unfold env_int. rewrite (ge_li _ _ _ _ _ Hen). reflexivity.
    + apply agree_refl.
    + left. exists K_last. auto using shape_last.
  - rewrite Hlp. apply (core_loop s F _ F ps en en0 g l li oe lq E Hen Hn Hr HW).
Qed.

Lemma outcome_agree s ps g lq en en1 r sb :
  agree en en1 -> outcome s ps g lq en1 r sb -> outcome s ps g lq en r sb.
Proof.
  intros Ha (st & en' & q' & Q' & H1 & H2 & H3 & H4). exists st, en', q', Q'.
  repeat split; auto. eapply agree_trans; eauto.
Qed.

(** from inside the replay loop *)
Lemma core_for s F ps en g l li oe lq rest :
  nth_error (p_gens ps) s = Some g -> genv s en l li oe ->
  (length (g_queue g) < F)%nat -> remove_first s (p_queues ps) = Some lq ->
  outcome s ps g lq en (settle s (exec enum_sem s F (K_for rest) ps en))
          (resume_sub (mkSub (g_last g) (g_cache g) Active li
                             (cached_before rest li ++ last_part en) (g_queue g))).
Proof.
  intros E Hen Hn Hr.
  destruct (for_spec s F ps en li rest (ge_li _ _ _ _ _ Hen)) as (en1 & Hag & Hfor).
  assert (HX : exec enum_sem s F (SFor2Run SSkip "idx" "item" (CList rest) sub_fbody) ps en =
               for2_list (exec enum_sem s F sub_fbody) "idx" "item" sub_fbody rest ps en).
  { rewrite exec_for2run, exec_skip. reflexivity. }
  rewrite Hfor in HX.
  assert (Hen1 := genv_agree _ _ _ _ _ _ Hen Hag).
  destruct rest as [|[i e] r]; [|destruct (i <? li) eqn:Elt].
  - cbn [cached_before app]. rewrite <- (last_part_agree _ _ Hag).
    apply (outcome_agree _ _ _ _ _ _ _ _ Hag). apply (core_tail s F _ ps en en1 g l li oe lq E Hen1 Hn Hr HX).
  - cbn [cached_before]. rewrite Elt. destruct e as [v|].
    + unfold K_for. rewrite exec_try, exec_seq, HX.
      cbn [settle resume_sub app s_phase s_pending s_last s_cache s_last_idx s_queue].
      exists (GSusp (K_for r)), en1, (g_queue g), (p_queues ps). split; [|split; [|split]].
      * rewrite (upd_gen_put _ _ _ _ _ E), with_queues_same. reflexivity.
      * unfold abs_gen. cbn. rewrite (env_int_agree _ _ Hag), (last_part_agree _ _ Hag).
        unfold env_int. rewrite (ge_li _ _ _ _ _ Hen). reflexivity.
      * exact Hag.
      * left. exists (K_for r). auto using shape_for.
    + unfold K_for. rewrite exec_try, exec_seq, HX.
      rewrite (fin_spec s F ps en1 lq (ge_q _ _ _ _ _ Hen1) Hr).
      cbn [after_fin settle resume_sub app s_phase s_pending s_last s_cache s_last_idx s_queue].
      exists GDone, en1, (g_queue g), lq. split; [|split; [|split]].
      * rewrite (upd_gen_put _ _ g); [reflexivity | exact E].
      * unfold abs_gen, finish_sub. cbn. rewrite (env_int_agree _ _ Hag).
        unfold env_int. rewrite (ge_li _ _ _ _ _ Hen). reflexivity.
      * exact Hag.
      * right. auto.
  - cbn [cached_before app]. rewrite Elt. cbn [app]. rewrite <- (last_part_agree _ _ Hag).
    apply (outcome_agree _ _ _ _ _ _ _ _ Hag). apply (core_tail s F _ ps en en1 g l li oe lq E Hen1 Hn Hr HX).
Qed.

(** ---- assembling `Next s` ---- *)

Lemma wf_post ps Q s g G :
  wf ps -> nth_error (p_gens ps) s = Some g -> NoDup Q ->
  (forall x, In x Q <-> (x <> s /\ In x (p_queues ps)) \/ (x = s /\ suspended G)) ->
  wf_gen s G -> wf (put_gen (with_queues ps Q) s G).
Proof.
  intros (Hnd & Hq & Hg) E HndQ HQ HG. split; [exact HndQ|]. split.
  - intros x. change (p_queues (put_gen (with_queues ps Q) s G)) with Q.
    change (p_gens (put_gen (with_queues ps Q) s G)) with (upd (p_gens ps) s G).
    rewrite HQ, nth_upd. destruct (Nat.eqb_spec s x) as [->|Hne].
    + rewrite E. cbn [option_map]. split.
      * intros [(H & _)|(_ & H)]; [congruence|]. eauto.
      * intros (g' & Eg & Hs). inversion Eg; subst. right. auto.
    + rewrite Hq. split.
      * intros [(_ & H)|(H & _)]; [exact H | congruence].
      * intros H. left. split; [congruence | exact H].
  - intros x g'. change (p_gens (put_gen (with_queues ps Q) s G)) with (upd (p_gens ps) s G).
    rewrite nth_upd. destruct (Nat.eqb_spec s x) as [->|Hne].
    + rewrite E. cbn [option_map]. intros H. inversion H; subst. exact HG.
    + apply Hg.
Qed.

Lemma next_assemble ps s g Qb lq en li oe sbr :
  wf ps -> nth_error (p_gens ps) s = Some g ->
  NoDup Qb -> (forall x, In x Qb <-> (x <> s /\ In x (p_queues ps)) \/ x = s) ->
  remove_first s Qb = Some lq ->
  genv s en (g_last g) li oe ->
  outcome s (with_queues ps Qb) g lq en (inext ps s) sbr ->
  next_sub (abs ps) (abs_gen g) = sbr ->
  tied ps (Next s).
Proof.
  intros Hwf E HndQ HQ Hr Hen (st & en' & q' & Q' & H1 & H2 & Hag & Hst) Hsb.
  assert (Hstep : step (abs ps) (Next s) =
                  (set_subs (abs ps) (upd (i_subs (abs ps)) s (fst sbr)), snd sbr)).
  { unfold step. rewrite abs_nth, E. cbn [option_map]. rewrite Hsb. destruct sbr; reflexivity. }
  unfold tied. rewrite Hstep. cbn [istep fst snd].
  exists (put_gen (with_queues ps Q') s (mkGen (g_last g) (g_cache g) st en' q')).
  split; [exact H1|]. split; [rewrite abs_put, abs_with_queues, H2; reflexivity|].
  assert (Hen' := genv_agree _ _ _ _ _ _ Hen Hag).
  destruct (remove_first_spec s Qb) as (lq' & Hr' & Hlq).
  { apply HQ. right. reflexivity. }
  rewrite Hr in Hr'. inversion Hr'; subst lq'. destruct (Hlq HndQ) as (Hndlq & Hinlq).
  destruct Hst as [(k & -> & Hk & ->)|(-> & ->)].
  - apply (wf_post ps _ s g _ Hwf E).
    + exact HndQ.
    + intros x. cbn [p_queues with_queues]. rewrite HQ. split.
      * intros [H|H]; [left; exact H | right; split; [exact H | eexists; reflexivity]].
      * intros [H|(H & _)]; auto.
    + unfold wf_gen. cbn [g_status g_env g_last].
      split; [exact Hk|]. destruct Hen' as [A B C D F0]. repeat split; eauto.
  - apply (wf_post ps _ s g _ Hwf E).
    + exact Hndlq.
    + intros x. rewrite Hinlq, HQ. split.
      * intros (Hne & [H|H]); [left; exact H | congruence].
      * intros [(Hne & H)|(_ & (k & Hk))]; [split; auto | discriminate].
    + exact I.
Qed.

(** ---- the first `__anext__`: the prologue of the regenerated `subscribe` ---- *)

Ltac ex1p :=
  first [ rewrite exec_seq | rewrite exec_if | rewrite exec_assign | rewrite exec_skip
        | rewrite exec_return | rewrite exec_append ].

Ltac fresh_close Hl Hc :=
  match goal with |- exists en', _ /\ _ /\ exec _ _ _ _ _ ?EN = _ => exists EN end;
  split; [reflexivity|]; split;
  [ split; cbn; rewrite ?Hl; try reflexivity; discriminate |];
  unfold K_for; rewrite !exec_try, !exec_seq;
  match goal with |- match ?A with _ => _ end = match ?B with _ => _ end =>
    assert (Hh : A = B);
    [ rewrite exec_if, exec_for2run, exec_skip; unfold cond; cbn; rewrite ?Hc; cbn;
      try rewrite exec_for2; try rewrite exec_skip; cbn; reflexivity
    | rewrite Hh; reflexivity ] end.

Definition cache_list (ps : pstate) : list enumd := match p_cache ps with Some x => x | None => [] end.

Lemma fresh_spec s F ps en l c :
  en "last"%string = VBool l -> en "cache"%string = VBool c ->
  let li := fst (p_last_enum ps) in
  let oe := snd (p_last_enum ps) in
  let rest0 := if c && (l && nonempty (cache_list ps)) then cache_list ps else [] in
  exists en', en' "last_idx"%string = VInt li /\
    match oe with
    | Some End => exec enum_sem s F item_subscribe_body ps en = RRet VNone ps en'
    | _ => genv s en' l li oe /\
           exec enum_sem s F item_subscribe_body ps en =
           exec enum_sem s F (K_for rest0) (with_queues ps (p_queues ps ++ [s])) en'
    end.
Proof.
  intros Hl Hc. cbv zeta. unfold item_subscribe_body, cache_list.
  match goal with |- context [STry ?a ?b] => remember (STry a b) as T eqn:HT end.
  destruct (p_last_enum ps) as [li oe] eqn:Ele. cbn [fst snd].
  destruct oe as [[v|]|].
  - destruct (p_cache ps) as [[|x cl]|] eqn:Ecl; destruct l; destruct c;
      repeat (ex1p; unfold cond; cbn; rewrite ?Hl, ?Hc, ?Ele, ?Ecl; cbn); subst T; fresh_close Hl Hc.
  - destruct (p_cache ps) as [[|x cl]|] eqn:Ecl;
      repeat (ex1p; unfold cond; cbn; rewrite ?Hl, ?Hc, ?Ele, ?Ecl; cbn);
      (eexists; split; [|reflexivity]; reflexivity).
  - destruct (p_cache ps) as [[|x cl]|] eqn:Ecl; destruct l; destruct c;
      repeat (ex1p; unfold cond; cbn; rewrite ?Hl, ?Hc, ?Ele, ?Ecl; cbn); subst T; fresh_close Hl Hc.
Qed.

Lemma fuel_ok ps s g : nth_error (p_gens ps) s = Some g -> (length (g_queue g) < gen_fuel ps s)%nat.
Proof. intros E. unfold gen_fuel, get_queue. rewrite E. cbn. lia. Qed.

Lemma in_self_or ps s : forall x, In x (p_queues ps) -> In s (p_queues ps) ->
  (x <> s /\ In x (p_queues ps)) \/ x = s.
Proof. intros x Hx _. destruct (Nat.eq_dec x s); auto. Qed.

(** `__anext__` of a suspended generator *)
Lemma tie_next_susp ps s g k :
  wf ps -> nth_error (p_gens ps) s = Some g -> g_status g = GSusp k -> tied ps (Next s).
Proof.
  intros Hwf E Est. pose proof (proj2 (proj2 Hwf) s g E) as Hg. unfold wf_gen in Hg. rewrite Est in Hg.
  destruct Hg as (Hk & Hlast & (li & Hli) & Hq & (oe & Hoe & Hne)).
  assert (Hen : genv s (g_env g) (g_last g) li oe) by (split; auto).
  assert (Hin : In s (p_queues ps)) by (apply Hwf; exists g; split; [auto | exists k; auto]).
  destruct (remove_first_spec s _ Hin) as (lq & Hr & _).
  pose proof (fuel_ok ps s g E) as Hn.
  apply (next_assemble ps s g (p_queues ps) lq (g_env g) li oe (resume_sub (abs_gen g)) Hwf E).
  - apply Hwf.
  - intros x. split; [intros Hx; apply in_self_or; auto | intros [(_ & H)| ->]; auto].
  - exact Hr.
  - exact Hen.
  - rewrite with_queues_same. unfold inext. rewrite E, Est.
    destruct Hk as [(rest & ->)|[->|[->| ->]]].
    + replace (abs_gen g) with (mkSub (g_last g) (g_cache g) Active li
                                      (cached_before rest li ++ last_part (g_env g)) (g_queue g)).
      * apply (core_for s _ ps (g_env g) g _ li oe lq rest E Hen Hn Hr).
      * unfold abs_gen. rewrite Est. cbn. unfold env_int. rewrite Hli. reflexivity.
    + replace (abs_gen g) with (mkSub (g_last g) (g_cache g) Active li [] (g_queue g)).
      * apply (core_loop s _ _ _ ps (g_env g) (g_env g) g _ li oe lq E Hen Hn Hr).
        rewrite exec_seq, exec_skip. change sub_loop with (SWhileTrue sub_wbody). rewrite exec_while. reflexivity.
      * unfold abs_gen. rewrite Est. cbn. unfold env_int. rewrite Hli. reflexivity.
    + replace (abs_gen g) with (mkSub (g_last g) (g_cache g) Active li [] (g_queue g)).
      * apply (core_loop s _ _ _ ps (g_env g) (g_env g) g _ li oe lq E Hen Hn Hr).
        rewrite exec_whilerun, exec_skip. reflexivity.
      * unfold abs_gen. rewrite Est. cbn. unfold env_int. rewrite Hli. reflexivity.
    + replace (abs_gen g) with (mkSub (g_last g) (g_cache g) Active li [] (g_queue g)).
      * apply (core_loop s _ _ (S (gen_fuel ps s)) ps (g_env g) (g_env g) g _ li oe lq E Hen); [lia | exact Hr |].
        rewrite exec_whilerun, while_loop_S. reflexivity.
      * unfold abs_gen. rewrite Est. cbn. unfold env_int. rewrite Hli. reflexivity.
  - unfold next_sub, abs_gen. rewrite Est. reflexivity.
Qed.

Lemma nodup_snoc {A} (l : list A) x : NoDup l -> ~ In x l -> NoDup (l ++ [x]).
Proof.
  induction l as [|a l IH]; intros Hnd Hx; simpl.
  - constructor; [intros [] | constructor].
  - inversion Hnd; subst. constructor.
    + rewrite in_app_iff. simpl. intros [H|[H|[]]]; [contradiction | subst; apply Hx; left; reflexivity].
    + apply IH; auto. intros H. apply Hx. right. exact H.
Qed.

(** the first `__anext__` *)
Lemma tie_next_fresh ps s g :
  wf ps -> nth_error (p_gens ps) s = Some g -> g_status g = GFresh -> tied ps (Next s).
Proof.
  intros Hwf E Est. pose proof (proj2 (proj2 Hwf) s g E) as Hg. unfold wf_gen in Hg. rewrite Est in Hg.
  destruct Hg as (Hl & Hc & _ & Hqe).
  assert (Hnotin : ~ In s (p_queues ps)).
  { intros Hin. apply Hwf in Hin. destruct Hin as (g0 & E0 & (k & Hk)). congruence. }
  destruct (fresh_spec s (gen_fuel ps s) ps (g_env g) _ _ Hl Hc) as (en' & Hli & Hm). cbv zeta in Hm.
  destruct (p_last_enum ps) as [li oe] eqn:Ele. cbn [fst snd] in *.
  assert (Hcase : oe = Some End \/ oe <> Some End) by (destruct oe as [[v|]|]; auto; right; discriminate).
  destruct Hcase as [->|Hne].
  - (* the topic has already ended *)
    unfold tied. cbn [istep]. unfold inext. rewrite E, Est, Hm. cbn [settle].
    rewrite (upd_gen_put _ _ _ _ _ E).
    assert (Hstep : step (abs ps) (Next s) =
      (set_subs (abs ps) (upd (i_subs (abs ps)) s (mkSub (g_last g) (g_cache g) Finished li [] [])), OStop)).
    { unfold step. rewrite abs_nth, E. cbn [option_map]. unfold next_sub, abs_gen. rewrite Est.
      cbn [s_phase]. unfold start_sub. cbn [abs i_last_enum]. rewrite Ele. reflexivity. }
    rewrite Hstep. eexists. split; [reflexivity|]. split.
    + rewrite abs_put. unfold abs_gen. cbn. unfold env_int. rewrite Hli. reflexivity.
    + rewrite <- (with_queues_same ps) at 1. apply (wf_post ps _ s g _ Hwf E).
      * apply Hwf.
      * intros x. split; [intros Hx; left; split; [intros ->; contradiction | exact Hx] |].
        intros [(_ & H)|(_ & (k & Hk))]; [exact H | discriminate].
      * exact I.
  - assert (Hm' : genv s en' (g_last g) li oe /\
                  exec enum_sem s (gen_fuel ps s) item_subscribe_body ps (g_env g) =
                  exec enum_sem s (gen_fuel ps s)
                    (K_for (if g_cache g && (g_last g && nonempty (cache_list ps)) then cache_list ps else []))
                    (with_queues ps (p_queues ps ++ [s])) en').
    { destruct oe as [[v|]|]; auto. congruence. }
    clear Hm. destruct Hm' as (Hen & Hex).
    set (rest0 := if g_cache g && (g_last g && nonempty (cache_list ps)) then cache_list ps else []) in *.
    assert (Hin : In s (p_queues ps ++ [s])) by (apply in_or_app; right; left; reflexivity).
    destruct (remove_first_spec s _ Hin) as (lq & Hr & _).
    apply (next_assemble ps s g (p_queues ps ++ [s]) lq en' li oe
             (resume_sub (mkSub (g_last g) (g_cache g) Active li
                                (cached_before rest0 li ++ last_part en') (g_queue g))) Hwf E).
    + apply nodup_snoc; [apply Hwf | exact Hnotin].
    + intros x. rewrite in_app_iff. simpl. split.
      * intros [Hx|[<-|[]]]; [left; split; [intros ->; contradiction | exact Hx] | right; reflexivity].
      * intros [(_ & H)| ->]; auto.
    + exact Hr.
    + exact Hen.
    + unfold inext. rewrite E, Est, Hex.
      apply (core_for s _ (with_queues ps (p_queues ps ++ [s])) en' g _ li oe lq rest0 E Hen (fuel_ok ps s g E) Hr).
    + unfold next_sub, abs_gen. rewrite Est. cbn [s_phase]. f_equal.
      unfold start_sub. cbn [abs i_last_enum i_cache s_last s_cache]. rewrite Ele, Hqe.
      unfold last_part. rewrite (ge_last _ _ _ _ _ Hen), (ge_item _ _ _ _ _ Hen).
      unfold rest0, cache_list. clear -Hne.
      destruct oe as [[v|]|]; [| congruence |];
        destruct (p_cache ps) as [[|x cl]|]; destruct (g_last g); destruct (g_cache g); reflexivity.
Qed.

Lemma tie_next ps s : wf ps -> tied ps (Next s).
Proof.
  intros Hwf. destruct (nth_error (p_gens ps) s) as [g|] eqn:E.
  - destruct (g_status g) as [|k|] eqn:Est.
    + apply (tie_next_fresh ps s g Hwf E Est).
    + apply (tie_next_susp ps s g k Hwf E Est).
    + unfold tied. cbn [istep]. unfold inext, step. rewrite E, abs_nth, E, Est. cbn [option_map].
      unfold next_sub, abs_gen. rewrite Est. cbn. exists ps. split; [reflexivity|]. split; [|exact Hwf].
      unfold set_subs, abs. cbn. rewrite upd_same; [reflexivity|].
      rewrite nth_error_map, E. cbn. unfold abs_gen. rewrite Est. reflexivity.
  - unfold tied. cbn [istep]. unfold inext, step. rewrite E, abs_nth, E. cbn. exists ps. auto.
Qed.

(** ---- Leave: `aclose()` of the generator (after cancelling a pending `__anext__`) ---- *)

Lemma unwind_shape s F k ps en : shape k ->
  unwind enum_sem s F k ps en =
  match exec enum_sem s F sub_fin ps en with RNorm ps' en' => Some (ps', en') | _ => None end.
Proof. intros [(rest & ->)|[->|[->| ->]]]; reflexivity. Qed.

Lemma tie_leave ps s : wf ps -> tied ps (Leave s).
Proof.
  intros Hwf. destruct (nth_error (p_gens ps) s) as [g|] eqn:E.
  2: { unfold tied. cbn [istep]. unfold ileave, step. rewrite E, abs_nth, E. cbn. exists ps. auto. }
  assert (Hstep : step (abs ps) (Leave s) =
                  (set_subs (abs ps) (upd (i_subs (abs ps)) s (finish_sub (abs_gen g))), OUnit)).
  { unfold step. rewrite abs_nth, E. reflexivity. }
  unfold tied. rewrite Hstep. cbn [istep fst snd]. unfold ileave. rewrite E.
  pose proof (proj2 (proj2 Hwf) s g E) as Hg. unfold wf_gen in Hg.
  destruct (g_status g) as [|k|] eqn:Est.
  - (* never started *)
    destruct Hg as (_ & _ & Hu & _). rewrite (upd_gen_put _ _ _ _ _ E).
    eexists. split; [reflexivity|]. split.
    + rewrite abs_put. unfold abs_gen. rewrite Est. cbn. unfold env_int. rewrite Hu. reflexivity.
    + rewrite <- (with_queues_same ps) at 1. apply (wf_post ps _ s g _ Hwf E); [apply Hwf | | exact I].
      intros x. split.
      * intros Hx. left. split; [|exact Hx]. intros ->. apply Hwf in Hx.
        destruct Hx as (g0 & E0 & (k & Hk)). congruence.
      * intros [(_ & H)|(_ & (k & Hk))]; [exact H | discriminate].
  - (* suspended: the `finally` clause runs *)
    destruct Hg as (Hk & Hlast & (li & Hli) & Hq & _).
    assert (Hin : In s (p_queues ps)) by (apply Hwf; exists g; split; [auto | exists k; auto]).
    destruct (remove_first_spec s _ Hin) as (lq & Hr & Hlq). destruct (Hlq (proj1 Hwf)) as (Hndlq & Hinlq).
    rewrite (unwind_shape _ _ _ _ _ Hk), (fin_spec s _ ps (g_env g) lq Hq Hr).
    rewrite (upd_gen_put _ _ g); [|exact E].
    eexists. split; [reflexivity|]. split.
    + rewrite abs_put. unfold abs_gen. rewrite Est. cbn. reflexivity.
    + apply (wf_post ps _ s g _ Hwf E); [exact Hndlq | | exact I].
      intros x. rewrite Hinlq. split.
      * intros H. left. exact H.
      * intros [H|(_ & (k0 & Hk0))]; [exact H | discriminate].
  - (* already finished *)
    rewrite (upd_gen_put _ _ _ _ _ E).
    eexists. split; [reflexivity|]. split.
    + rewrite abs_put. unfold abs_gen. rewrite Est. cbn. reflexivity.
    + rewrite <- (with_queues_same ps) at 1. apply (wf_post ps _ s g _ Hwf E); [apply Hwf | | exact I].
      intros x. split.
      * intros Hx. left. split; [|exact Hx]. intros ->. apply Hwf in Hx.
        destruct Hx as (g0 & E0 & (k & Hk)). congruence.
      * intros [(_ & H)|(_ & (k & Hk))]; [exact H | discriminate].
Qed.

(** ---- the defaults of the regenerated signature `subscribe(self, last=.., cache=..)` ----
    An omitted argument takes the default that translate/pubsub_funs.py emitted into
    [item_subscribe_params]; the model's [Sub l c] has both explicit.  These equalities hold
    only for the defaults `last=True, cache=True` and the parameter order (last, cache). *)
Lemma isub_defaults ps :
  isub_call ps [] [] = isub ps true true /\
  (forall l, isub_call ps [] [("last"%string, VBool l)] = isub ps l true) /\
  (forall c, isub_call ps [] [("cache"%string, VBool c)] = isub ps true c) /\
  (forall l, isub_call ps [VBool l] [] = isub ps l true) /\
  (forall l c, isub_call ps [VBool l; VBool c] [] = isub ps l c).
Proof. repeat split; reflexivity. Qed.

(** `subscribe()` with nothing given is the model's `Sub true true` *)
Theorem tie_sub_defaults ps : wf ps ->
  exists ps', isub_call ps [] [] = Some (ps', snd (step (abs ps) (Sub true true))) /\
              abs ps' = fst (step (abs ps) (Sub true true)) /\ wf ps'.
Proof. intros Hwf. rewrite (proj1 (isub_defaults ps)). exact (tie_sub ps true true Hwf). Qed.

(** ---- the tie, operation by operation and for whole histories ---- *)

Theorem tie_step ps o : wf ps -> tied ps o.
Proof.
  intros Hwf. destruct o.
  - apply tie_publish; exact Hwf.
  - apply tie_clear; exact Hwf.
  - apply tie_close; exact Hwf.
  - apply tie_latest; exact Hwf.
  - apply tie_sub; exact Hwf.
  - apply tie_next; exact Hwf.
  - apply tie_leave; exact Hwf.
Qed.

(** `PubSubItem(cache=c)`: the regenerated `__init__` builds the model's initial state *)
Theorem tie_init cache :
  exists ps, iinit [("cache"%string, VBool cache)] = Some ps /\ abs ps = new_item cache /\ wf ps.
Proof.
  destruct cache; eexists; (split; [reflexivity|]); (split; [reflexivity|]);
    (split; [constructor|]); (split; [|intros [|s] g H; discriminate]);
    intros s; (split; [intros [] | intros (g & H & _); destruct s; discriminate]).
Qed.

Theorem tie_run : forall ops ps, wf ps ->
  exists ps', irun_from ps ops = Some (ps', snd (run_from (abs ps) ops)) /\
              abs ps' = fst (run_from (abs ps) ops) /\ wf ps'.
Proof.
  induction ops as [|o ops IH]; intros ps Hwf; simpl.
  - exists ps. auto.
  - destruct (tie_step ps o Hwf) as (ps1 & H1 & H2 & H3). rewrite H1.
    destruct (step (abs ps) o) as [it1 x] eqn:Es. simpl in *. subst it1.
    destruct (IH ps1 H3) as (ps2 & H4 & H5 & H6). rewrite H4.
    destruct (run_from (abs ps1) ops) as [it2 xs]. simpl in *. exists ps2. auto.
Qed.

(** for EVERY history: running the regenerated code = running the hand-written model *)
Theorem tie_outs cache ops : iouts cache ops = Some (outs cache ops).
Proof.
  unfold iouts, outs. destruct (tie_init cache) as (ps & -> & Ha & Hwf).
  destruct (tie_run ops ps Hwf) as (ps' & -> & _ & _). rewrite Ha. reflexivity.
Qed.
