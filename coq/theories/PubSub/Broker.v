(** The broker (PubSub): a collection of independent topic lifetimes.
    - every instance that is no longer bound to a key has been ended;
    - PubSub.close() ends every instance that exists;
    - hence (with the item theorems) every generator handed out before a
      close() terminates. *)
From NL Require Import PubSub.Model PubSub.Spec PubSub.Refine PubSub.Delivery PubSub.Main.
From Coq Require Import Lia.
Open Scope Z_scope.

Definition bfinal (ops : list bop) : broker := fst (brun_from new_broker ops).

(** once ended, always ended *)
Lemma step_closed_mono it o : i_closed it = true -> i_closed (fst (step it o)) = true.
Proof.
  intros H. destruct o; simpl; rewrite ?H; simpl; auto.
  - destruct (nth_error (i_subs it) s) as [sb|]; simpl; auto. destruct (next_sub it sb). simpl. auto.
  - destruct (nth_error (i_subs it) s); simpl; auto.
Qed.

Lemma step_close_closes it : i_closed (fst (step it Close)) = true.
Proof. simpl. destruct (i_closed it) eqn:E; simpl; auto. Qed.

Lemma nth_error_upd_same {A} (l : list A) n x : (n < length l)%nat -> nth_error (upd l n x) n = Some x.
Proof. revert n; induction l; intros [|n] H; simpl in *; try lia; auto. apply IHl. lia. Qed.

Lemma nth_error_upd_other {A} (l : list A) n m x : n <> m -> nth_error (upd l n x) m = nth_error l m.
Proof. revert n m; induction l; intros [|n] [|m] H; simpl; auto; try congruence. Qed.

Lemma upd_len {A} (l : list A) n x : length (upd l n x) = length l.
Proof. revert n; induction l; intros [|n]; simpl; auto. Qed.

(** [on_item] touches exactly one instance and never re-opens one *)
Lemma on_item_items b i o j :
  nth_error (b_items (fst (on_item b i o))) j =
  if Nat.eqb i j then option_map (fun it => fst (step it o)) (nth_error (b_items b) j) else nth_error (b_items b) j.
Proof.
  unfold on_item. destruct (Nat.eqb_spec i j) as [->|Hn].
  - destruct (nth_error (b_items b) j) as [it|] eqn:E; simpl; [|rewrite E; reflexivity].
    destruct (step it o) as [it' x] eqn:Es. simpl. rewrite nth_error_upd_same.
    + reflexivity.
    + apply nth_error_Some. congruence.
  - destruct (nth_error (b_items b) i) as [it|]; simpl; auto.
    destruct (step it o). simpl. apply nth_error_upd_other. auto.
Qed.

Lemma on_item_map b i o : b_map (fst (on_item b i o)) = b_map b.
Proof. unfold on_item. destruct (nth_error (b_items b) i); auto. destruct (step i0 o); reflexivity. Qed.

Lemma on_item_len b i o : length (b_items (fst (on_item b i o))) = length (b_items b).
Proof. unfold on_item. destruct (nth_error (b_items b) i); auto. destruct (step i0 o); simpl. apply upd_len. Qed.

(** every instance is bound to a key or has been ended; keys are bound at most once *)
Definition bound (m : list (key * nat)) (i : nat) : Prop := exists k, In (k, i) m.

Definition BInv (b : broker) : Prop :=
  NoDup (map fst (b_map b)) /\
  forall i it, nth_error (b_items b) i = Some it -> bound (b_map b) i \/ i_closed it = true.

Lemma lookup_in m k i : lookup m k = Some i -> In (k, i) m.
Proof.
  induction m as [|[k' i'] m IH]; simpl; [discriminate|].
  destruct (Z.eqb_spec k k') as [->|Hn]; intros H; [inversion H; subst; auto | auto].
Qed.

Lemma lookup_none_notin m k : lookup m k = None -> ~ In k (map fst m).
Proof.
  induction m as [|[k' i'] m IH]; simpl; [tauto|].
  destruct (Z.eqb_spec k k') as [->|Hn]; [discriminate|]. intros H [E|Hin]; [congruence | apply IH; auto].
Qed.

Lemma lookup_unique m k j : NoDup (map fst m) -> In (k, j) m -> lookup m k = Some j.
Proof.
  induction m as [|[k' i'] m IH]; simpl; [tauto|]. intros Hnd [E|Hin].
  - inversion E; subst. rewrite Z.eqb_refl. reflexivity.
  - inversion Hnd; subst. destruct (Z.eqb_spec k k') as [->|Hn]; [|auto].
    exfalso. apply H1. apply (in_map fst) in Hin. exact Hin.
Qed.

Lemma in_remove_key m k k' i : In (k', i) (remove_key m k) <-> In (k', i) m /\ k' <> k.
Proof.
  induction m as [|[k0 i0] m IH]; simpl; [tauto|].
  destruct (Z.eqb_spec k k0) as [->|Hn]; simpl; rewrite IH; split.
  - intros [H1 H2]. auto.
  - intros [[E|H1] H2]; [inversion E; subst; congruence | auto].
  - intros [E|[H1 H2]]; [inversion E; subst; auto | auto].
  - intros [[E|H1] H2]; auto.
Qed.

Lemma nodup_remove_key m k : NoDup (map fst m) -> NoDup (map fst (remove_key m k)).
Proof.
  induction m as [|[k0 i0] m IH]; simpl; auto. intros Hnd. inversion Hnd; subst.
  destruct (Z.eqb_spec k k0); auto. simpl. constructor; auto.
  intros Hin. apply H1. apply in_map_iff in Hin. destruct Hin as ([k1 i1] & E & Hin). simpl in E. subst k1.
  apply in_remove_key in Hin. destruct Hin as [Hin _]. apply (in_map fst) in Hin. exact Hin.
Qed.

(** PubSub.close(): after the fold every instance that was bound is ended, the others are as before *)
Lemma close_fold m : forall b,
  let b' := fold_left (fun b ki => fst (on_item b (snd ki) Close)) m b in
  length (b_items b') = length (b_items b) /\ b_map b' = b_map b /\
  forall j it', nth_error (b_items b') j = Some it' ->
    exists it, nth_error (b_items b) j = Some it /\
               (i_closed it = true -> i_closed it' = true) /\
               (bound m j -> i_closed it' = true).
Proof.
  induction m as [|[k i] m IH]; intros b; simpl.
  - repeat split; auto. intros j it' H. exists it'. repeat split; auto. intros (k & []).
  - specialize (IH (fst (on_item b i Close))). simpl in IH. destruct IH as (Hl & Hm & IH).
    rewrite on_item_len in Hl. rewrite on_item_map in Hm. repeat split; auto.
    intros j it' H. destruct (IH _ _ H) as (it1 & H1 & Hc1 & Hb1).
    rewrite on_item_items in H1. destruct (Nat.eqb_spec i j) as [->|Hn].
    + destruct (nth_error (b_items b) j) as [it|] eqn:E; [|discriminate]. cbn [option_map] in H1.
      assert (E1 : it1 = fst (step it Close)) by congruence. subst it1.
      exists it. repeat split; auto.
      * intros Hc. apply Hc1. apply step_closed_mono. exact Hc.
      * intros _. apply Hc1. apply step_close_closes.
    + exists it1. repeat split; auto.
      intros (k' & [Hin|Hin]); [inversion Hin; subst; congruence|]. apply Hb1. exists k'. exact Hin.
Qed.

Lemma BInv_on_item b i o : BInv b -> BInv (fst (on_item b i o)).
Proof.
  intros [Hnd HI]. split; [rewrite on_item_map; exact Hnd|].
  intros j it' H. rewrite on_item_items in H. rewrite on_item_map.
  destruct (Nat.eqb_spec i j) as [->|Hn]; [|apply HI; auto].
  destruct (nth_error (b_items b) j) as [it|] eqn:E; [|discriminate]. cbn [option_map] in H.
  assert (E1 : it' = fst (step it o)) by congruence. subst it'.
  destruct (HI _ _ E) as [Hb|Hc]; [left; auto | right; apply step_closed_mono; auto].
Qed.

Lemma BInv_get_or_create b k : BInv b -> BInv (fst (get_or_create b k)).
Proof.
  intros [Hnd HI]. unfold get_or_create. destruct (lookup (b_map b) k) as [i|] eqn:E; simpl; [split; auto|].
  split.
  - simpl. constructor; auto. apply lookup_none_notin. exact E.
  - intros j it H. simpl in *. destruct (Nat.lt_ge_cases j (length (b_items b))) as [Hj|Hj].
    + rewrite nth_error_app1 in H by assumption. destruct (HI _ _ H) as [(k' & Hin)|Hc]; auto.
      left. exists k'. right. exact Hin.
    + rewrite nth_error_app2 in H by assumption.
      destruct (j - length (b_items b))%nat as [|d] eqn:Ed; simpl in H; [|destruct d; discriminate].
      left. exists k. left. f_equal. lia.
Qed.

Lemma BInv_gens b l : BInv b -> BInv (mkBroker (b_map b) (b_items b) l).
Proof. intros H. exact H. Qed.

Lemma BInv_step b o : BInv b -> BInv (fst (bstep b o)).
Proof.
  intros HI. destruct o; simpl.
  - pose proof (BInv_get_or_create b k HI) as H1. destruct (get_or_create b k) as [b' i]. apply BInv_on_item. exact H1.
  - (* BEnd *)
    destruct (lookup (b_map b) k) as [i|] eqn:E; [|exact HI]. destruct HI as [Hnd HI].
    split.
    + rewrite on_item_map. simpl. apply nodup_remove_key. exact Hnd.
    + intros j it' H. rewrite on_item_items in H. rewrite on_item_map. cbn [b_items b_map b_gens] in *.
      destruct (Nat.eqb_spec i j) as [->|Hn].
      * destruct (nth_error (b_items b) j) as [it|]; [|discriminate]. cbn [option_map] in H.
        assert (E1 : it' = fst (step it Close)) by congruence. subst it'.
        right. apply step_close_closes.
      * destruct (HI _ _ H) as [(k' & Hin)|Hc]; auto.
        left. exists k'. apply in_remove_key. split; auto.
        intros ->. rewrite (lookup_unique _ _ _ Hnd Hin) in E. congruence.
  - (* BClose *)
    unfold close_all. destruct HI as [Hnd HI].
    pose proof (close_fold (b_map b) (mkBroker [] (b_items b) (b_gens b))) as (Hl & Hm & Hf). simpl in *.
    split; [rewrite Hm; constructor|].
    intros j it' H. right. destruct (Hf _ _ H) as (it & H0 & Hc & Hb).
    destruct (HI _ _ H0) as [Hbd|Hcl]; auto.
  - pose proof (BInv_get_or_create b k HI) as H1. destruct (get_or_create b k) as [b' i]. apply BInv_on_item. exact H1.
  - (* BSub *)
    pose proof (BInv_get_or_create b k HI) as H1. destruct (get_or_create b k) as [b' i].
    pose proof (BInv_on_item b' i (Sub last true) H1) as H2.
    destruct (on_item b' i (Sub last true)) as [b'' x]. simpl in H2. destruct x; auto.
  - destruct (nth_error (b_gens b) g) as [[i s]|]; [apply BInv_on_item; auto | auto].
  - destruct (nth_error (b_gens b) g) as [[i s]|]; [apply BInv_on_item; auto | auto].
Qed.

Lemma BInv_init : BInv new_broker.
Proof. split; [constructor|]. intros [|i] it H; discriminate. Qed.

Lemma brun_fst_snoc ops : forall b o, fst (brun_from b (ops ++ [o])) = fst (bstep (fst (brun_from b ops)) o).
Proof.
  induction ops as [|x ops IH]; intros b o; simpl.
  - destruct (bstep b o). reflexivity.
  - destruct (bstep b x) as [b1 y]. specialize (IH b1 o).
    destruct (brun_from b1 (ops ++ [o])) as [b2 ys]. destruct (brun_from b1 ops) as [b3 zs]. simpl in *. exact IH.
Qed.

Theorem BInv_reachable ops : BInv (bfinal ops).
Proof.
  unfold bfinal. induction ops as [|o ops IH] using rev_ind; [exact BInv_init|].
  rewrite brun_fst_snoc. apply BInv_step. exact IH.
Qed.

(** PubSub.close() ends every topic lifetime that exists: every generator handed
    out earlier is bound to one of them, so (item theorem [model_termination]) its
    iteration terminates. *)
Theorem close_ends_everything ops i it :
  nth_error (b_items (bfinal (ops ++ [BClose]))) i = Some it -> i_closed it = true.
Proof.
  unfold bfinal. rewrite brun_fst_snoc. simpl. intros H.
  destruct (BInv_reachable ops) as [Hnd HI]. unfold bfinal in *.
  set (b := fst (brun_from new_broker ops)) in *.
  unfold close_all in H.
  pose proof (close_fold (b_map b) (mkBroker [] (b_items b) (b_gens b))) as (_ & _ & Hf). simpl in Hf.
  destruct (Hf _ _ H) as (it0 & H0 & Hc & Hb). destruct (HI _ _ H0); auto.
Qed.

(** an ended key: the instance it was bound to is ended; a later publish on the key starts a new lifetime *)
Theorem end_ends_instance ops k i :
  lookup (b_map (bfinal ops)) k = Some i ->
  exists it, nth_error (b_items (bfinal (ops ++ [BEnd k]))) i = Some it /\ i_closed it = true
  \/ nth_error (b_items (bfinal ops)) i = None.
Proof.
  intros E. unfold bfinal in *. rewrite brun_fst_snoc. simpl. rewrite E.
  set (b := fst (brun_from new_broker ops)) in *.
  destruct (nth_error (b_items b) i) as [it|] eqn:Ei.
  - exists (fst (step it Close)). left. rewrite on_item_items. simpl. rewrite Nat.eqb_refl, Ei. simpl.
    split; [reflexivity | apply step_close_closes].
  - exists (new_item false). right. reflexivity.
Qed.
