(** Refinement: the model of PubSubItem (queues, indices, cache, sentinels)
    produces, for every operation sequence, exactly the outputs of the
    abstract specification. *)
From NL Require Import PubSub.Model PubSub.Spec.
From Coq Require Import Lia.
Open Scope Z_scope.

Definition ent_vals (l : list ent) : list V :=
  flat_map (fun e => match e with It v => [v] | End => [] end) l.

Definition last_opt {A} (l : list A) : option A :=
  match rev l with x :: _ => Some x | [] => None end.

Lemma last_opt_snoc {A} (l : list A) x : last_opt (l ++ [x]) = Some x.
Proof. unfold last_opt. rewrite rev_app_distr. reflexivity. Qed.

Lemma lastl_snoc {A} (l : list A) x : lastl (l ++ [x]) = [x].
Proof. unfold lastl. rewrite rev_app_distr. reflexivity. Qed.

Lemma ent_vals_app a b : ent_vals (a ++ b) = ent_vals a ++ ent_vals b.
Proof. unfold ent_vals. apply flat_map_app. Qed.

Lemma ent_vals_map_It l : ent_vals (map It l) = l.
Proof. induction l as [|x l IH]; simpl; congruence. Qed.

Definition cache_wf (idx : Z) (c : list enumd) : Prop :=
  c = [] \/ exists c' e, c = c' ++ [(idx, e)] /\ Forall (fun x => fst x < idx) c'.

Definition Rsub (idx : Z) (ended : bool) (s : sub) (a : asub) : Prop :=
  s_last s = a_last a /\ s_cache s = a_cacheopt a /\
  match s_phase s, a_state a with
  | Fresh, AFresh => True
  | Finished, AFinished => True
  | Active, AActive =>
    s_last_idx s <= idx /\
    Forall (fun e => s_last_idx s < fst e <= idx) (s_queue s) /\
    (forall e, In e (s_pending s) -> e <> End) /\
    a_end a = ended /\
    exists qv, map snd (s_queue s) = map It qv ++ (if ended then [End] else []) /\
               a_owed a = ent_vals (s_pending s) ++ qv
  | _, _ => False
  end.

Record R (it : item) (a : aspec) : Prop := mkR {
  R_closed : i_closed it = a_ended a;
  R_cacheflag : a_cache a = match i_cache it with Some _ => true | None => false end;
  R_last_item : i_last_item it = last_opt (a_since a);
  R_idx : fst (i_last_enum it) = i_idx it;
  R_last_enum : snd (i_last_enum it) =
                if a_ended a then Some End else option_map It (last_opt (a_since a));
  R_cache : forall c, i_cache it = Some c ->
            map snd c = map It (a_since a) ++ (if a_ended a then [End] else []) /\ cache_wf (i_idx it) c;
  R_subs : Forall2 (Rsub (i_idx it) (a_ended a)) (i_subs it) (a_subs a)
}.

Lemma R_init cache : R (new_item cache) (new_aspec cache).
Proof.
  constructor; simpl; auto.
  - destruct cache; reflexivity.
  - intros c H. destruct cache; inversion H; subst. split; [reflexivity | left; reflexivity].
Qed.

(** ---- generic list facts ---- *)

Lemma Forall2_length' {A B} (P : A -> B -> Prop) l l' : Forall2 P l l' -> length l = length l'.
Proof. induction 1; simpl; congruence. Qed.

Lemma Forall2_nth_error {A B} (P : A -> B -> Prop) l l' n x :
  Forall2 P l l' -> nth_error l n = Some x -> exists y, nth_error l' n = Some y /\ P x y.
Proof.
  intros H; revert n; induction H as [|a b l l' Hab H IH]; intros [|n] Hn; simpl in *; try discriminate.
  - inversion Hn; subst; eauto.
  - eauto.
Qed.

Lemma Forall2_nth_error_none {A B} (P : A -> B -> Prop) l l' n :
  Forall2 P l l' -> nth_error l n = None -> nth_error l' n = None.
Proof.
  intros H; revert n; induction H; intros [|n] Hn; simpl in *; try discriminate; auto.
Qed.

Lemma Forall2_upd {A B} (P : A -> B -> Prop) l l' n x y :
  Forall2 P l l' -> P x y -> Forall2 P (upd l n x) (upd l' n y).
Proof.
  intros H; revert n; induction H; intros [|n] Hxy; simpl; constructor; auto.
Qed.

Lemma Forall2_map {A B} (P Q : A -> B -> Prop) f g l l' :
  (forall a b, P a b -> Q (f a) (g b)) -> Forall2 P l l' -> Forall2 Q (map f l) (map g l').
Proof. intros HPQ H; induction H; simpl; constructor; auto. Qed.

Lemma Forall2_impl' {A B} (P Q : A -> B -> Prop) l l' :
  (forall a b, P a b -> Q a b) -> Forall2 P l l' -> Forall2 Q l l'.
Proof. intros HPQ H; induction H; constructor; auto. Qed.

Lemma Forall2_snoc {A B} (P : A -> B -> Prop) l l' x y :
  Forall2 P l l' -> P x y -> Forall2 P (l ++ [x]) (l' ++ [y]).
Proof. intros H Hxy; induction H; simpl; constructor; auto. Qed.

Lemma cached_before_all c i : Forall (fun x => fst x < i) c -> forall r, cached_before (c ++ r) i = map snd c ++ cached_before r i.
Proof.
  induction 1 as [|[j e] c Hj H IH]; intros r; simpl; auto.
  simpl in Hj. destruct (Z.ltb_spec j i); [|lia]. rewrite IH. reflexivity.
Qed.

Lemma cached_before_wf c i e c' :
  Forall (fun x => fst x < i) c' -> c = c' ++ [(i, e)] -> cached_before c i = map snd c'.
Proof.
  intros H ->. rewrite cached_before_all by assumption. simpl.
  rewrite Z.ltb_irrefl. apply app_nil_r.
Qed.

Lemma map_snoc_inv {A B} (f : A -> B) l m y :
  map f l = m ++ [y] -> exists l' x, l = l' ++ [x] /\ map f l' = m /\ f x = y.
Proof.
  revert m; induction l as [|a l IH]; intros m H; simpl in H.
  - destruct m; discriminate.
  - destruct m as [|b m]; simpl in H.
    + inversion H. destruct l; [|discriminate]. exists [], a. auto.
    + inversion H; subst. destruct (IH _ H2) as (l' & x & -> & <- & <-).
      exists (a :: l'), x. auto.
Qed.

Lemma snoc_inj {A} (l l' : list A) x y : l ++ [x] = l' ++ [y] -> l = l' /\ x = y.
Proof. intros H. apply app_inj_tail in H. exact H. Qed.

Lemma rev_case {A} (l : list A) : l = [] \/ exists l' x, l = l' ++ [x].
Proof. destruct (rev l) eqn:E.
  - left. apply (f_equal (@rev A)) in E. rewrite rev_involutive in E. exact E.
  - right. apply (f_equal (@rev A)) in E. rewrite rev_involutive in E. simpl in E. eauto.
Qed.

(** ---- subscribers ---- *)

Lemma push_R idx v s a :
  Rsub idx false s a -> Rsub (idx + 1) false (push (idx + 1, It v) s) (a_push v a).
Proof.
  intros (Hl & Hc & H). unfold push, a_push, Rsub.
  destruct (s_phase s) eqn:Ep, (a_state a) eqn:Ea; try contradiction; simpl; rewrite ?Ep, ?Ea; auto.
  destruct H as (Hi & Hq & Hp & He & qv & Hqv & Ho).
  repeat split; auto; try lia.
  - apply Forall_app; split.
    + eapply Forall_impl; [|exact Hq]. simpl; intros; lia.
    + constructor; [simpl; lia | constructor].
  - exists (qv ++ [v]). rewrite !map_app, Hqv, !app_nil_r. simpl.
    split; [reflexivity|]. rewrite Ho, app_assoc. reflexivity.
Qed.

Lemma finish_R idx s a :
  Rsub idx false s a -> Rsub (idx + 1) true (push (idx + 1, End) s) (a_finish a).
Proof.
  intros (Hl & Hc & H). unfold push, a_finish, Rsub.
  destruct (s_phase s) eqn:Ep, (a_state a) eqn:Ea; try contradiction; simpl; rewrite ?Ep, ?Ea; auto.
  destruct H as (Hi & Hq & Hp & He & qv & Hqv & Ho).
  repeat split; auto; try lia.
  - apply Forall_app; split.
    + eapply Forall_impl; [|exact Hq]. simpl; intros; lia.
    + constructor; [simpl; lia | constructor].
  - exists qv. rewrite !map_app, Hqv, app_nil_r. simpl. auto.
Qed.

Lemma Rsub_idx_mono idx idx' ended s a : idx <= idx' -> Rsub idx ended s a -> Rsub idx' ended s a.
Proof.
  intros Hle (Hl & Hc & H). unfold Rsub. repeat split; auto.
  destruct (s_phase s), (a_state a); auto.
  destruct H as (Hi & Hq & Hp & He & qv & Hqv & Ho).
  repeat split; auto; try lia.
  - eapply Forall_impl; [|exact Hq]. simpl; intros; lia.
  - eauto.
Qed.

Lemma read_queue_items last_idx q qv tl :
  Forall (fun e => last_idx < fst e) q ->
  map snd q = map It qv ++ tl ->
  match qv with
  | v :: r => exists q', read_queue last_idx q = (q', OItem v, false) /\ map snd q' = map It r ++ tl
                         /\ Forall (fun e => last_idx < fst e) q'
  | [] => True
  end.
Proof.
  intros Hq Hm. destruct qv as [|v r]; auto.
  destruct q as [|[i e] q]; simpl in Hm; [discriminate|].
  inversion Hm; subst. inversion Hq; subst. simpl in *.
  destruct (Z.ltb_spec last_idx i); [|lia]. eauto.
Qed.

Lemma resume_R idx ended s a :
  Rsub idx ended s a -> s_phase s <> Fresh ->
  let '(s', o) := resume_sub s in
  let '(a', o') :=
    match a_state a with
    | AActive =>
      match a_owed a with
      | v :: r => (mkASub (a_last a) (a_cacheopt a) AActive r (a_end a), OItem v)
      | [] => if a_end a then (a_done a, OStop) else (a, OBlocked)
      end
    | _ => (a, OStop)
    end in
  o = o' /\ Rsub idx ended s' a'.
Proof.
  intros HR Hnf. pose proof HR as (Hl & Hc & H). unfold resume_sub.
  destruct (s_phase s) eqn:Ep, (a_state a) eqn:Ea; try contradiction; try congruence.
  2:{ split; [reflexivity | exact HR]. }
  destruct H as (Hi & Hq & Hp & He & qv & Hqv & Ho).
  destruct (s_pending s) as [|[v|] pend] eqn:Epend.
  - (* read the queue *)
    simpl in Ho. subst qv.
    destruct (a_owed a) as [|v r] eqn:Eow.
    + (* nothing owed *)
      simpl in Hqv. destruct ended.
      * rewrite He. destruct (s_queue s) as [|[i e] q] eqn:Eq; simpl in Hqv; [discriminate|].
        inversion Hqv; subst e. simpl. split; [reflexivity|].
        unfold Rsub, finish_sub, a_done; simpl. auto.
      * rewrite He. destruct (s_queue s) as [|? ?] eqn:Eq; simpl in Hqv; [|discriminate].
        simpl. split; [reflexivity|].
        unfold Rsub; simpl. rewrite Ea. repeat split; auto.
        exists []. rewrite Eow. simpl. auto.
    + assert (Hq' : Forall (fun e => s_last_idx s < fst e) (s_queue s))
        by (eapply Forall_impl; [|exact Hq]; simpl; intros; lia).
      pose proof (read_queue_items _ _ (v :: r) _ Hq' Hqv) as (q' & Hrq & Hm' & Hf').
      rewrite Hrq. split; [reflexivity|].
      unfold Rsub; simpl. repeat split; auto.
      * destruct (s_queue s) as [|[i e] q] eqn:Eq; [discriminate|].
        simpl in Hrq. destruct e.
        -- inversion Hq; subst. simpl in *. destruct (Z.ltb_spec (s_last_idx s) i); [|lia].
           inversion Hrq; subst. assumption.
        -- simpl in Hqv. discriminate.
      * exists r. simpl. auto.
  - (* a pending old item *)
    simpl in Ho. rewrite Ho. split; [reflexivity|].
    unfold Rsub; simpl. repeat split; auto.
    + intros e He'. apply Hp. right. assumption.
    + exists qv. auto.
  - exfalso. apply (Hp End); [left; reflexivity | reflexivity].
Qed.

Lemma start_R it a s sa :
  R it a -> Rsub (i_idx it) (a_ended a) s sa -> s_phase s = Fresh ->
  Rsub (i_idx it) (a_ended a) (start_sub it s)
       (if a_ended a then a_done sa
        else mkASub (a_last sa) (a_cacheopt sa) AActive
                    (replay (a_cache a) (a_since a) (a_last sa) (a_cacheopt sa)) false).
Proof.
  intros HR (Hl & Hc & H) Ep. unfold start_sub.
  destruct (i_last_enum it) as [li le] eqn:Ele.
  pose proof (R_idx _ _ HR) as Hidx. pose proof (R_last_enum _ _ HR) as Hle.
  rewrite Ele in Hidx, Hle. simpl in Hidx, Hle. subst li.
  destruct (a_ended a) eqn:Een.
  - subst le. unfold Rsub, a_done; simpl. auto.
  - destruct (rev_case (a_since a)) as [Es | (pre & v & Es)].
    + (* nothing published since the last clear *)
      rewrite Es in Hle. simpl in Hle. subst le.
      assert (Hold : (if s_cache s && (s_last s && match i_cache it with Some (_ :: _) => true | _ => false end)
                      then match i_cache it with Some c => cached_before c (i_idx it) | None => [] end
                      else []) = []).
      { destruct (i_cache it) as [c|] eqn:Ec.
        - destruct (R_cache _ _ HR _ Ec) as (Hm & _). rewrite Es, Een in Hm. simpl in Hm.
          destruct c; [|discriminate]. rewrite !andb_false_r. reflexivity.
        - rewrite !andb_false_r. reflexivity. }
      rewrite Hold. simpl.
      unfold Rsub; simpl. repeat split; auto; try lia.
      exists []. simpl. split; [reflexivity|].
        rewrite Es. unfold replay, lastl. simpl. destruct (a_last sa), (a_cache a && a_cacheopt sa); reflexivity.
    + rewrite Es, last_opt_snoc in Hle. simpl in Hle. subst le.
      unfold Rsub; simpl. repeat split; auto; try lia.
      * intros e He. apply in_app_or in He. destruct He as [He|He].
        -- destruct (s_cache s && (s_last s && _)); [|destruct He].
           destruct (i_cache it) as [c|] eqn:Ec; [|destruct He].
           destruct (R_cache _ _ HR _ Ec) as (Hm & Hwf). rewrite Een, app_nil_r in Hm.
           destruct Hwf as [->|(c' & e' & -> & Hf)]; [destruct He|].
           erewrite cached_before_wf in He by eauto.
           rewrite map_app in Hm. rewrite Es, map_app in Hm. simpl in Hm.
           apply snoc_inj in Hm. destruct Hm as (Hm & _). rewrite Hm in He.
           apply in_map_iff in He. destruct He as (x & <- & _). discriminate.
        -- destruct (s_last s); [|destruct He]. destruct He as [<-|[]]. discriminate.
      * exists []. simpl. split; [reflexivity|]. rewrite app_nil_r, ent_vals_app.
        rewrite (R_cacheflag _ _ HR), <- Hl, <- Hc. unfold replay.
        destruct (i_cache it) as [c|] eqn:Ec.
        -- destruct (R_cache _ _ HR _ Ec) as (Hm & Hwf). rewrite Een, app_nil_r in Hm.
           destruct Hwf as [->|(c' & e' & -> & Hf)].
           { rewrite Es, map_app in Hm. simpl in Hm. destruct (map It pre); discriminate. }
           assert (Hne : match c' ++ [(i_idx it, e')] with _ :: _ => true | [] => false end = true)
             by (destruct c'; reflexivity).
           rewrite Hne, andb_true_r.
           erewrite cached_before_wf by eauto.
           rewrite map_app in Hm. rewrite Es, map_app in Hm. simpl in Hm.
           apply snoc_inj in Hm. destruct Hm as (Hm & _). rewrite Hm.
           destruct (s_last s), (s_cache s); simpl; rewrite ?ent_vals_map_It, ?Es, ?lastl_snoc; auto.
        -- rewrite !andb_false_r. simpl.
           destruct (s_last s); simpl; rewrite ?Es, ?lastl_snoc; reflexivity.
Qed.

Lemma next_R it a s sa :
  R it a -> Rsub (i_idx it) (a_ended a) s sa ->
  let '(s', o) := next_sub it s in
  let '(a', o') := a_next a sa in
  o = o' /\ Rsub (i_idx it) (a_ended a) s' a'.
Proof.
  intros HR Hs. unfold next_sub, a_next.
  destruct (s_phase s) eqn:Ep.
  - (* Fresh *)
    pose proof Hs as (_ & _ & H). rewrite Ep in H. destruct (a_state sa) eqn:Ea; try contradiction.
    pose proof (start_R _ _ _ _ HR Hs Ep) as Hst.
    assert (Hnf : s_phase (start_sub it s) <> Fresh).
    { unfold start_sub. destruct (i_last_enum it) as [? [[|]|]]; simpl; discriminate. }
    pose proof (resume_R _ _ _ _ Hst Hnf) as Hres.
    destruct (a_ended a); exact Hres.
  - pose proof Hs as (_ & _ & H). rewrite Ep in H. destruct (a_state sa) eqn:Ea; try contradiction.
    assert (Hnf : s_phase s <> Fresh) by congruence.
    pose proof (resume_R _ _ _ _ Hs Hnf) as Hres. rewrite Ea in Hres. rewrite Ea. exact Hres.
  - pose proof Hs as (_ & _ & H). rewrite Ep in H. destruct (a_state sa) eqn:Ea; try contradiction.
    assert (Hnf : s_phase s <> Fresh) by congruence.
    pose proof (resume_R _ _ _ _ Hs Hnf) as Hres. rewrite Ea in Hres. rewrite Ea. exact Hres.
Qed.

(** ---- one step ---- *)

Lemma step_R it a o :
  R it a -> let '(it', x) := step it o in let '(a', y) := astep a o in x = y /\ R it' a'.
Proof.
  intros HR. pose proof HR as [Hcl Hcf Hli Hidx Hle Hca Hsu].
  destruct o as [v| | | |l c|s|s]; simpl.
  - (* Publish *)
    rewrite <- Hcl. destruct (i_closed it) eqn:Ecl; [split; [reflexivity | exact HR]|].
    split; [reflexivity|]. rewrite <- Hcl in *.
    constructor; simpl; auto.
    + destruct (i_cache it); auto.
    + rewrite last_opt_snoc. reflexivity.
    + rewrite last_opt_snoc. reflexivity.
    + intros c Hc. destruct (i_cache it) as [c0|] eqn:Ec; [|discriminate]. inversion Hc; subst c.
      destruct (Hca _ eq_refl) as (Hm & Hwf). split.
      * rewrite !map_app, Hm, !app_nil_r. reflexivity.
      * right. exists c0, (It v). split; [reflexivity|].
        destruct Hwf as [->|(c' & e & -> & Hf)]; [constructor|].
        apply Forall_app; split; [eapply Forall_impl; [|exact Hf]; simpl; intros; lia|].
        constructor; [simpl; lia | constructor].
    + eapply Forall2_map; [|exact Hsu]. intros s sa Hs. apply push_R; auto.
  - (* Clear *)
    rewrite <- Hcl. destruct (i_closed it) eqn:Ecl; [split; [reflexivity | exact HR]|].
    split; [reflexivity|]. rewrite <- Hcl in *.
    constructor; simpl; auto.
    + destruct (i_cache it); auto.
    + intros c Hc. destruct (i_cache it) as [c0|]; [|discriminate]. inversion Hc; subst.
      split; [reflexivity | left; reflexivity].
    + eapply Forall2_impl'; [|exact Hsu]. intros s sa Hs. eapply Rsub_idx_mono; [|exact Hs]. lia.
  - (* Close *)
    rewrite <- Hcl. destruct (i_closed it) eqn:Ecl; [split; [reflexivity | exact HR]|].
    split; [reflexivity|]. rewrite <- Hcl in *.
    constructor; simpl; auto.
    + destruct (i_cache it); auto.
    + intros c Hc. destruct (i_cache it) as [c0|] eqn:Ec; [|discriminate]. inversion Hc; subst c.
      destruct (Hca _ eq_refl) as (Hm & Hwf). split.
      * rewrite map_app, Hm, app_nil_r. reflexivity.
      * right. exists c0, End. split; [reflexivity|].
        destruct Hwf as [->|(c' & e & -> & Hf)]; [constructor|].
        apply Forall_app; split; [eapply Forall_impl; [|exact Hf]; simpl; intros; lia|].
        constructor; [simpl; lia | constructor].
    + eapply Forall2_map; [|exact Hsu]. intros s sa Hs. apply finish_R; auto.
  - (* Latest *)
    split; [|exact HR]. rewrite Hli. unfold last_opt. destruct (rev (a_since a)); reflexivity.
  - (* Sub *)
    split; [rewrite (Forall2_length' _ _ _ Hsu); reflexivity|].
    constructor; simpl; auto.
    apply Forall2_snoc; auto. unfold Rsub; simpl. auto.
  - (* Next *)
    destruct (nth_error (i_subs it) s) as [sb|] eqn:En.
    + destruct (Forall2_nth_error _ _ _ _ _ Hsu En) as (sa & Ena & Hs). rewrite Ena.
      pose proof (next_R _ _ _ _ HR Hs) as Hn.
      destruct (next_sub it sb) as [sb' x], (a_next a sa) as [sa' y]. destruct Hn as (-> & Hs').
      split; [reflexivity|]. constructor; simpl; auto.
      apply Forall2_upd; auto.
    + rewrite (Forall2_nth_error_none _ _ _ _ Hsu En). split; [reflexivity | exact HR].
  - (* Leave *)
    destruct (nth_error (i_subs it) s) as [sb|] eqn:En.
    + destruct (Forall2_nth_error _ _ _ _ _ Hsu En) as (sa & Ena & Hs). rewrite Ena.
      split; [reflexivity|]. constructor; simpl; auto.
      apply Forall2_upd; auto. destruct Hs as (Hl & Hc & _). unfold Rsub; simpl. auto.
    + rewrite (Forall2_nth_error_none _ _ _ _ Hsu En). split; [reflexivity | exact HR].
Qed.

Lemma run_from_R ops : forall it a,
  R it a -> snd (run_from it ops) = snd (arun_from a ops) /\ R (fst (run_from it ops)) (fst (arun_from a ops)).
Proof.
  induction ops as [|o ops IH]; intros it a HR; simpl; [auto|].
  pose proof (step_R it a o HR) as Hs.
  destruct (step it o) as [it' x], (astep a o) as [a' y]. destruct Hs as (-> & HR').
  destruct (IH _ _ HR') as (Ho & HRf).
  destruct (run_from it' ops), (arun_from a' ops). simpl in *. subst. auto.
Qed.

Theorem refinement cache ops : outs cache ops = aouts cache ops.
Proof. apply (run_from_R ops _ _ (R_init cache)). Qed.

Theorem refinement_state cache ops : R (run cache ops) (arun cache ops).
Proof. apply (run_from_R ops _ _ (R_init cache)). Qed.
