(** Executable model of nextline/utils/pubsub/item.py (PubSubItem) and
    broker.py (PubSub).  Definitions only; proofs are in Proofs.v.

    Atomicity: no `await` inside publish/_enumerate/aclose/clear/end/close
    can suspend (unbounded asyncio.Queue.put) -- checked on every run by the
    harness (each coroutine is driven with send(None) and must finish).  An
    interleaving of publisher and subscriber tasks is therefore a sequence
    of the operations below. *)
From Coq Require Export List ZArith Bool Arith.
Export ListNotations.
Open Scope Z_scope.

Definition V := Z.

(** What `_enumerate` distributes: an item or the `_END` sentinel. *)
Inductive ent := It (v : V) | End.
Notation enumd := (Z * ent)%type.

(** Generator state of one `subscribe()` call. *)
Inductive phase := Fresh | Active | Finished.

Record sub := mkSub {
  s_last : bool;             (* options given to subscribe() *)
  s_cache : bool;
  s_phase : phase;
  s_last_idx : Z;            (* snapshot of _last_enumerated[0] *)
  s_pending : list ent;      (* old data still to be yielded (cached, then last) *)
  s_queue : list enumd       (* its asyncio.Queue; in `_queues` iff Active *)
}.

Record item := mkItem {
  i_cache : option (list enumd);   (* None: cache disabled *)
  i_idx : Z;
  i_last_enum : Z * option ent;    (* None = _START *)
  i_last_item : option V;          (* None = _START *)
  i_closed : bool;
  i_subs : list sub                (* every generator created, in creation order *)
}.

Definition new_item (cache : bool) : item :=
  mkItem (if cache then Some [] else None) (-1) (-1, None) None false [].

Inductive op :=
| Publish (v : V) | Clear | Close | Latest
| Sub (last cache : bool) | Next (s : nat) | Leave (s : nat).

Inductive out :=
| OUnit | OErr | OLatest (v : option V) | OSid (s : nat)
| OItem (v : V) | OStop | OBlocked.

Definition push (e : enumd) (s : sub) : sub :=
  match s_phase s with
  | Active => mkSub (s_last s) (s_cache s) Active (s_last_idx s) (s_pending s) (s_queue s ++ [e])
  | _ => s
  end.

(** `_enumerate` *)
Definition enumerate (it : item) (e : ent) : item :=
  let idx := i_idx it + 1 in
  mkItem (match i_cache it with Some c => Some (c ++ [(idx, e)]) | None => None end)
         idx (idx, Some e) (i_last_item it) (i_closed it)
         (map (push (idx, e)) (i_subs it)).

Definition set_last_item (it : item) (v : option V) : item :=
  mkItem (i_cache it) (i_idx it) (i_last_enum it) v (i_closed it) (i_subs it).

Definition set_closed (it : item) : item :=
  mkItem (i_cache it) (i_idx it) (i_last_enum it) (i_last_item it) true (i_subs it).

Definition set_subs (it : item) (l : list sub) : item :=
  mkItem (i_cache it) (i_idx it) (i_last_enum it) (i_last_item it) (i_closed it) l.

Definition do_clear (it : item) : item :=
  let idx := i_idx it + 1 in
  mkItem (match i_cache it with Some _ => Some [] | None => None end)
         idx (idx, None) None (i_closed it) (i_subs it).

(** the loop `for idx, item in cached: if not idx < last_idx: break; ... yield item` *)
Fixpoint cached_before (c : list enumd) (last_idx : Z) : list ent :=
  match c with
  | [] => []
  | (idx, e) :: r => if idx <? last_idx then e :: cached_before r last_idx else []
  end.

(** First `anext` of a generator: the code up to the `try`. *)
Definition start_sub (it : item) (s : sub) : sub :=
  let '(last_idx, last_item) := i_last_enum it in
  match last_item with
  | Some End => mkSub (s_last s) (s_cache s) Finished last_idx [] []
  | _ =>
    let cached_nonempty := match i_cache it with Some (_ :: _) => true | _ => false end in
    let use_cache := s_cache s && (s_last s && cached_nonempty) in
    let old := if use_cache then match i_cache it with Some c => cached_before c last_idx | None => [] end else [] in
    let lst := match last_item with Some e => if s_last s then [e] else [] | None => [] end in
    mkSub (s_last s) (s_cache s) Active last_idx (old ++ lst) []
  end.

(** `while True: idx, item = await q.get(); ...` on the current queue content *)
Fixpoint read_queue (last_idx : Z) (q : list enumd) : list enumd * out * bool (* finished *) :=
  match q with
  | [] => ([], OBlocked, false)
  | (idx, End) :: r => (r, OStop, true)
  | (idx, It v) :: r => if last_idx <? idx then (r, OItem v, false) else read_queue last_idx r
  end.

Definition finish_sub (s : sub) : sub :=
  mkSub (s_last s) (s_cache s) Finished (s_last_idx s) [] [].

(** One `anext` on a started generator. *)
Definition resume_sub (s : sub) : sub * out :=
  match s_phase s with
  | Active =>
    match s_pending s with
    | It v :: r => (mkSub (s_last s) (s_cache s) Active (s_last_idx s) r (s_queue s), OItem v)
    | End :: r => (finish_sub s, OStop)
    | [] =>
      let '(q, o, fin) := read_queue (s_last_idx s) (s_queue s) in
      if fin then (finish_sub s, o)
      else (mkSub (s_last s) (s_cache s) Active (s_last_idx s) [] q, o)
    end
  | _ => (s, OStop)
  end.

Definition next_sub (it : item) (s : sub) : sub * out :=
  match s_phase s with
  | Fresh => resume_sub (start_sub it s)
  | _ => resume_sub s
  end.

Fixpoint upd {A} (l : list A) (n : nat) (x : A) : list A :=
  match l, n with
  | [], _ => []
  | _ :: r, O => x :: r
  | a :: r, S n => a :: upd r n x
  end.

Definition step (it : item) (o : op) : item * out :=
  match o with
  | Publish v =>
    if i_closed it then (it, OErr)
    else (enumerate (set_last_item it (Some v)) (It v), OUnit)
  | Clear => if i_closed it then (it, OErr) else (do_clear it, OUnit)
  | Close => if i_closed it then (it, OUnit) else (enumerate (set_closed it) End, OUnit)
  | Latest => (it, match i_last_item it with Some v => OLatest (Some v) | None => OErr end)
  | Sub l c => (set_subs it (i_subs it ++ [mkSub l c Fresh 0 [] []]), OSid (length (i_subs it)))
  | Next s =>
    match nth_error (i_subs it) s with
    | Some sb => let '(sb', o) := next_sub it sb in (set_subs it (upd (i_subs it) s sb'), o)
    | None => (it, OErr)
    end
  | Leave s =>
    match nth_error (i_subs it) s with
    | Some sb => (set_subs it (upd (i_subs it) s (finish_sub sb)), OUnit)
    | None => (it, OErr)
    end
  end.

Fixpoint run_from (it : item) (ops : list op) : item * list out :=
  match ops with
  | [] => (it, [])
  | o :: r => let '(it', x) := step it o in let '(it'', xs) := run_from it' r in (it'', x :: xs)
  end.

Definition run (cache : bool) (ops : list op) : item := fst (run_from (new_item cache) ops).
Definition outs (cache : bool) (ops : list op) : list out := snd (run_from (new_item cache) ops).

(** ---- the broker (PubSub): a defaultdict key -> PubSubItem ---- *)

Definition key := Z.

Record broker := mkBroker {
  b_map : list (key * nat);        (* current binding key -> instance *)
  b_items : list item;             (* every instance ever created *)
  b_gens : list (nat * nat)        (* generator handle -> (instance, local index) *)
}.

Definition new_broker : broker := mkBroker [] [] [].

Inductive bop :=
| BPublish (k : key) (v : V) | BEnd (k : key) | BClose | BLatest (k : key)
| BSub (k : key) (last : bool) | BNext (g : nat) | BLeave (g : nat).

Fixpoint lookup (m : list (key * nat)) (k : key) : option nat :=
  match m with
  | [] => None
  | (k', i) :: r => if Z.eqb k k' then Some i else lookup r k
  end.

Fixpoint remove_key (m : list (key * nat)) (k : key) : list (key * nat) :=
  match m with
  | [] => []
  | (k', i) :: r => if Z.eqb k k' then remove_key r k else (k', i) :: remove_key r k
  end.

(** `self._queue[key]` of a defaultdict: create on first access *)
Definition get_or_create (b : broker) (k : key) : broker * nat :=
  match lookup (b_map b) k with
  | Some i => (b, i)
  | None =>
    let i := length (b_items b) in
    (mkBroker ((k, i) :: b_map b) (b_items b ++ [new_item false]) (b_gens b), i)
  end.

Definition on_item (b : broker) (i : nat) (o : op) : broker * out :=
  match nth_error (b_items b) i with
  | Some it => let '(it', x) := step it o in (mkBroker (b_map b) (upd (b_items b) i it') (b_gens b), x)
  | None => (b, OErr)
  end.

Definition close_all (b : broker) : broker :=
  fold_left (fun b ki => fst (on_item b (snd ki) Close)) (b_map b) (mkBroker [] (b_items b) (b_gens b)).

Definition bstep (b : broker) (o : bop) : broker * out :=
  match o with
  | BPublish k v => let '(b', i) := get_or_create b k in on_item b' i (Publish v)
  | BLatest k => let '(b', i) := get_or_create b k in on_item b' i Latest
  | BSub k last =>
    let '(b', i) := get_or_create b k in
    match on_item b' i (Sub last true) with
    | (b'', OSid s) => (mkBroker (b_map b'') (b_items b'') (b_gens b'' ++ [(i, s)]), OSid (length (b_gens b'')))
    | r => r
    end
  | BEnd k =>
    match lookup (b_map b) k with
    | Some i => on_item (mkBroker (remove_key (b_map b) k) (b_items b) (b_gens b)) i Close
    | None => (b, OUnit)
    end
  | BClose => (close_all b, OUnit)
  | BNext g =>
    match nth_error (b_gens b) g with
    | Some (i, s) => on_item b i (Next s)
    | None => (b, OErr)
    end
  | BLeave g =>
    match nth_error (b_gens b) g with
    | Some (i, s) => on_item b i (Leave s)
    | None => (b, OErr)
    end
  end.

Fixpoint brun_from (b : broker) (ops : list bop) : broker * list out :=
  match ops with
  | [] => (b, [])
  | o :: r => let '(b', x) := bstep b o in let '(b'', xs) := brun_from b' r in (b'', x :: xs)
  end.

Definition bouts (ops : list bop) : list out := snd (brun_from new_broker ops).

(** ---- decidable comparison of outputs, for the correspondence check ---- *)

Definition out_eqb (a b : out) : bool :=
  match a, b with
  | OUnit, OUnit | OErr, OErr | OStop, OStop | OBlocked, OBlocked => true
  | OLatest (Some x), OLatest (Some y) => Z.eqb x y
  | OLatest None, OLatest None => true
  | OSid x, OSid y => Nat.eqb x y
  | OItem x, OItem y => Z.eqb x y
  | _, _ => false
  end.

Fixpoint outs_eqb (a b : list out) : bool :=
  match a, b with
  | [], [] => true
  | x :: a, y :: b => out_eqb x y && outs_eqb a b
  | _, _ => false
  end.

(** indices of the cases on which `f input` differs from the observed outputs *)
Fixpoint bad_from {A} (f : A -> list out) (n : nat) (cases : list (A * list out)) : list nat :=
  match cases with
  | [] => []
  | (i, o) :: r => if outs_eqb (f i) o then bad_from f (S n) r else n :: bad_from f (S n) r
  end.
