(** Proofs about the model of stdout capture (Stdout/Model.v over the
    GENERATED Gen/PeekFuns.v) against the history functions of Stdout/Spec.v. *)
From NL Require Import Stdout.Spec.
From Coq Require Import Lia.
Open Scope Z_scope.

(** ** keys, dictionaries *)

Lemma ch_eqb_refl c : ch_eqb c c = true.
Proof. destruct c; simpl; auto using Z.eqb_refl. Qed.

Lemma key_eqb_eq a b : key_eqb a b = true <-> a = b.
Proof.
  destruct a, b; simpl; split; intro H; try discriminate; auto.
  - apply Z.eqb_eq in H; congruence.
  - inversion H; apply Z.eqb_refl.
Qed.

Lemma key_eqb_refl a : key_eqb a a = true.
Proof. apply key_eqb_eq; reflexivity. Qed.

Lemma key_eqb_neq a b : key_eqb a b = false <-> a <> b.
Proof.
  split; intro H.
  - intro E; apply key_eqb_eq in E; congruence.
  - destruct (key_eqb a b) eqn:E; auto. apply key_eqb_eq in E; contradiction.
Qed.

Lemma key_eqb_sym a b : key_eqb a b = key_eqb b a.
Proof.
  destruct (key_eqb a b) eqn:E.
  - apply key_eqb_eq in E; subst; symmetry; apply key_eqb_refl.
  - symmetry; apply key_eqb_neq; apply key_eqb_neq in E; congruence.
Qed.

Lemma dd_get_remove b k k' :
  dd_get (dd_remove b k) k' = if key_eqb k k' then [] else dd_get b k'.
Proof.
  induction b as [|[a v] r IH]; simpl.
  - destruct (key_eqb k k'); reflexivity.
  - destruct (key_eqb a k) eqn:E.
    + rewrite IH. apply key_eqb_eq in E; subst a.
      destruct (key_eqb k k'); reflexivity.
    + simpl. rewrite IH.
      destruct (key_eqb a k') eqn:E'; auto.
      apply key_eqb_eq in E'; subst a. rewrite key_eqb_sym, E. reflexivity.
Qed.

Lemma dd_get_set b k v k' :
  dd_get (dd_set b k v) k' = if key_eqb k k' then v else dd_get b k'.
Proof.
  unfold dd_set; simpl. rewrite dd_get_remove.
  destruct (key_eqb k k'); reflexivity.
Qed.

Local Arguments dd_set : simpl never.

Lemma traced_truthy k : traced k <-> truthy_key k = true.
Proof.
  unfold traced; split.
  - intros (n & -> & Hn); simpl. destruct (Z.eqb_spec n 0); auto; contradiction.
  - destruct k as [n|]; simpl; try discriminate.
    destruct (Z.eqb_spec n 0); simpl; try discriminate. intros _; eauto.
Qed.

(** ** text *)

Lemma ends_nl_nil : ends_nl [] = false.
Proof. reflexivity. Qed.

Lemma ends_nl_snoc x c : ends_nl (x ++ [c]) = match c with NL => true | Other _ => false end.
Proof.
  unfold ends_nl, str_endswith. rewrite <- !rev_alt, rev_app_distr. simpl. destruct c; reflexivity.
Qed.

Lemma ends_nl_cons c r : r <> [] -> ends_nl (c :: r) = ends_nl r.
Proof.
  intro H. destruct (exists_last H) as (x & d & ->).
  change (c :: x ++ [d]) with ((c :: x) ++ [d]). rewrite !ends_nl_snoc. reflexivity.
Qed.

Lemma ends_nl_app x s : ends_nl s = true -> ends_nl (x ++ s) = true.
Proof.
  intro H. destruct s as [|c s]. { discriminate. }
  assert (N : c :: s <> []) by discriminate.
  destruct (exists_last N) as (y & d & E). rewrite E in *.
  rewrite app_assoc, ends_nl_snoc. rewrite ends_nl_snoc in H. exact H.
Qed.

Lemma ends_nl_spec s : ends_nl s = true <-> exists body, s = body ++ [NL].
Proof.
  split.
  - intro H. destruct s as [|c s]. { discriminate. }
    assert (N : c :: s <> []) by discriminate.
    destruct (exists_last N) as (y & d & E). rewrite E in *.
    rewrite ends_nl_snoc in H. destruct d; try discriminate. eauto.
  - intros (b & ->). apply ends_nl_snoc.
Qed.

Lemma has_nl_app a b : has_nl (a ++ b) = has_nl a || has_nl b.
Proof. induction a as [|[|n] a IH]; simpl; auto. Qed.

Lemma ends_has_nl s : ends_nl s = true -> has_nl s = true.
Proof.
  intro H. apply ends_nl_spec in H as (b & ->). rewrite has_nl_app; simpl. apply orb_true_r.
Qed.

(** ** "longest prefix ending in NL" really is that *)

Lemma upto_no_nl q : has_nl q = false -> upto_last_nl q = [].
Proof.
  induction q as [|[|n] q IH]; simpl; intro H; try discriminate; auto.
  rewrite IH; auto.
Qed.

Lemma upto_decomp t :
  exists q, t = upto_last_nl t ++ q /\ has_nl q = false /\
            (upto_last_nl t = [] \/ ends_nl (upto_last_nl t) = true).
Proof.
  induction t as [|c r (q & E & Hq & Hu)]; simpl.
  - exists []; auto.
  - destruct (upto_last_nl r) as [|d u] eqn:U.
    + simpl in E. subst q. destruct c.
      * exists r; repeat split; auto.
      * exists (Other n :: r); repeat split; auto.
    + exists q. split; [simpl; f_equal; exact E|]. split; auto.
      right. rewrite ends_nl_cons by discriminate.
      destruct Hu as [Hu|Hu]; [discriminate|exact Hu].
Qed.

Lemma upto_unique p q :
  (p = [] \/ ends_nl p = true) -> has_nl q = false -> upto_last_nl (p ++ q) = p.
Proof.
  intros Hp Hq. induction p as [|c p IH]; simpl.
  - apply upto_no_nl; auto.
  - destruct Hp as [Hp|Hp]; [discriminate|].
    destruct p as [|d p].
    + simpl. rewrite (upto_no_nl q Hq).
      change [c] with ([] ++ [c]) in Hp. rewrite ends_nl_snoc in Hp. destruct c; try discriminate; reflexivity.
    + rewrite ends_nl_cons in Hp by discriminate.
      rewrite IH by auto. reflexivity.
Qed.

Lemma upto_iff p q :
  (p = [] \/ ends_nl p = true) ->
  (upto_last_nl (p ++ q) = p <-> has_nl q = false).
Proof.
  intro Hp; split; [|apply upto_unique; auto].
  intro E. destruct (upto_decomp (p ++ q)) as (q' & D & Hq' & _).
  rewrite E in D. apply app_inv_head in D. subst; auto.
Qed.

Lemma upto_split t : t = upto_last_nl t ++ after_last_nl t.
Proof.
  destruct (upto_decomp t) as (q & E & _). unfold after_last_nl.
  remember (upto_last_nl t) as u. clear Hequ. subst t.
  rewrite skipn_app, skipn_all, Nat.sub_diag. reflexivity.
Qed.

Lemma after_no_nl t : has_nl (after_last_nl t) = false.
Proof.
  destruct (upto_decomp t) as (q & E & Hq & _).
  pose proof (upto_split t) as S. rewrite E in S at 1. apply app_inv_head in S. congruence.
Qed.

Lemma upto_nonempty t : has_nl t = true -> upto_last_nl t <> [].
Proof.
  intros H E. pose proof (upto_split t) as S. rewrite E in S; simpl in S.
  rewrite S, after_no_nl in H. discriminate.
Qed.

Lemma upto_ends t : has_nl t = true -> ends_nl (upto_last_nl t) = true.
Proof.
  intro H. destruct (upto_decomp t) as (_ & _ & _ & [E|E]); auto.
  apply upto_nonempty in H. contradiction.
Qed.

Lemma upto_length t : (length (upto_last_nl t) <= length t)%nat.
Proof. rewrite (upto_split t) at 2. rewrite app_length. lia. Qed.

Lemma str_contains_nl s : str_contains [NL] s = has_nl s.
Proof.
  induction s as [|c s IH]; auto.
  simpl. rewrite IH. destruct c; reflexivity.
Qed.

(** rindex of NL, by the scan of Prim.v *)
Lemma rindex_go_nl t : forall i best,
  rindex_go t [NL] i best =
  if has_nl t then i + Z.of_nat (length (upto_last_nl t)) - 1 else best.
Proof.
  induction t as [|c r IH]; intros i best; simpl; auto.
  rewrite IH. destruct (has_nl r) eqn:Hr.
  - pose proof (upto_nonempty r Hr) as N.
    destruct (upto_last_nl r) as [|d u] eqn:U; [contradiction|].
    destruct c; cbv iota; cbn [length]; lia.
  - rewrite (upto_no_nl r Hr). destruct c; simpl; auto. lia.
Qed.

Lemma rindex_nl t : has_nl t = true ->
  str_rindex t [NL] + 1 = Z.of_nat (length (upto_last_nl t)).
Proof. intro H. unfold str_rindex. rewrite rindex_go_nl, H. lia. Qed.

Lemma slice_from t n : (n <= length t)%nat -> str_slice t (Some (Z.of_nat n)) None = skipn n t.
Proof.
  intro H. unfold str_slice, py_index.
  replace (Z.of_nat n <? 0) with false by (symmetry; apply Z.ltb_ge; lia).
  rewrite Z.min_l by lia. rewrite Nat2Z.id.
  apply firstn_all2. rewrite skipn_length. lia.
Qed.

Lemma slice_to t n : (n <= length t)%nat -> str_slice t None (Some (Z.of_nat n)) = firstn n t.
Proof.
  intro H. unfold str_slice, py_index.
  replace (Z.of_nat n <? 0) with false by (symmetry; apply Z.ltb_ge; lia).
  rewrite Z.min_l by lia. rewrite Nat2Z.id, Nat.sub_0_r. reflexivity.
Qed.

Lemma firstn_upto t : firstn (length (upto_last_nl t)) t = upto_last_nl t.
Proof.
  rewrite (upto_split t) at 2. rewrite firstn_app, Nat.sub_diag, firstn_all. simpl. apply app_nil_r.
Qed.

Lemma dd_remove_idem b k : dd_remove (dd_remove b k) k = dd_remove b k.
Proof.
  induction b as [|[a v] r IH]; simpl; auto.
  destruct (key_eqb a k) eqn:E; simpl; rewrite ?E, IH; auto.
Qed.

(** the buffer after a flush: `rest` is kept under k only when non-empty *)
Definition keep_rest (b : buf) (k : pykey) (r : text) : buf :=
  if truthy_text r then dd_set (dd_remove b k) k r else dd_remove b k.

Lemma keep_rest_get b k r k' :
  dd_get (keep_rest b k r) k' = if key_eqb k k' then r else dd_get b k'.
Proof.
  unfold keep_rest. destruct r as [|c r]; simpl truthy_text; cbv iota.
  - rewrite dd_get_remove. reflexivity.
  - rewrite dd_get_set, dd_get_remove. destruct (key_eqb k k'); reflexivity.
Qed.

(** ** what the generated closures do (the only lemmas that look inside
    Gen/PeekFuns.v) *)

Lemma rlbk_spec {W} (cb : pykey -> text -> W -> W) k s b w :
  read_lines_by_key cb k s (b, w) =
  if has_nl s
  then (keep_rest b k (after_last_nl (dd_get b k ++ s)), cb k (upto_last_nl (dd_get b k ++ s)) w)
  else (dd_set b k (dd_get b k ++ s), w).
Proof.
  unfold read_lines_by_key, dd_pop, str_add. cbv beta iota zeta.
  rewrite str_contains_nl. destruct (has_nl s) eqn:Hs; cbv beta iota zeta delta [negb]; auto.
  rewrite dd_get_set, key_eqb_refl.
  set (t := dd_get b k ++ s).
  assert (Ht : has_nl t = true) by (unfold t; rewrite has_nl_app, Hs; apply orb_true_r).
  assert (R : dd_remove (dd_set b k t) k = dd_remove b k).
  { unfold dd_set. simpl. rewrite key_eqb_refl. apply dd_remove_idem. }
  rewrite R, (rindex_nl t Ht).
  rewrite slice_from, slice_to by apply upto_length.
  rewrite firstn_upto. fold (after_last_nl t). unfold keep_rest.
  destruct (truthy_text (after_last_nl t)); reflexivity.
Qed.

Lemma assign_key_spec {W} (a : pykey) (cb : pykey -> text -> W -> W) s w :
  (truthy_key a = false /\ assign_key (fun _ => a) cb s w = w) \/
  (a <> None /\ assign_key (fun _ => a) cb s w = cb a s w).
Proof.
  (* written so that it also goes through for equivalent forms of the key test
     (e.g. `is not None`): each case is closed by whichever disjunct computes *)
  unfold assign_key. destruct a as [n|]; simpl.
  - destruct (Z.eqb_spec n 0) as [->|Hn]; simpl;
      first [ right; split; [discriminate | reflexivity] | left; split; reflexivity ].
  - first [ left; split; reflexivity | right; split; [discriminate | reflexivity] ].
Qed.

Lemma assign_key_traced {W} (a : pykey) (cb : pykey -> text -> W -> W) s w :
  truthy_key a = true -> assign_key (fun _ => a) cb s w = cb a s w.
Proof.
  intro T. destruct (assign_key_spec a cb s w) as [(F & _)|(_ & E)]; [congruence|exact E].
Qed.

Lemma assign_key_none {W} (cb : pykey -> text -> W -> W) s w :
  assign_key (fun _ => None) cb s w = w.
Proof.
  destruct (assign_key_spec None cb s w) as [(_ & E)|(N & _)]; [exact E|contradiction].
Qed.

(** one write, as a function of the state *)
Definition flushing (a : pykey) (s : text) (st : buf * world) : buf * world :=
  let t := dd_get (fst st) a ++ s in
  if has_nl s
  then (keep_rest (fst st) a (after_last_nl t),
        mkWorld (w_events (snd st) ++ [(a, upto_last_nl t)]) (w_real (snd st) ++ [s]))
  else (dd_set (fst st) a t,
        mkWorld (w_events (snd st)) (w_real (snd st) ++ [s])).

Definition dropping (s : text) (st : buf * world) : buf * world :=
  (fst st, mkWorld (w_events (snd st)) (w_real (snd st) ++ [s])).

Lemma step_spec st a s :
  (truthy_key a = false /\ step st (Write a s) = dropping s st) \/
  (a <> None /\ step st (Write a s) = flushing a s st).
Proof.
  destruct st as [b w]. unfold step, peek_write.
  destruct (assign_key_spec a (read_lines_by_key (on_write_stdout (fun _ => a))) s (b, w))
    as [(F & E)|(N & E)]; rewrite E.
  - left; split; auto.
  - right; split; auto. rewrite rlbk_spec. unfold flushing, org_write, on_write_stdout; simpl.
    destruct (has_nl s); reflexivity.
Qed.

Lemma step_traced st a s : truthy_key a = true -> step st (Write a s) = flushing a s st.
Proof.
  intro T. destruct (step_spec st a s) as [(F & _)|(_ & E)]; [congruence|exact E].
Qed.

Lemma step_none st s : step st (Write None s) = dropping s st.
Proof.
  destruct (step_spec st None s) as [(_ & E)|(N & _)]; [exact E|contradiction].
Qed.

(** ** runs *)

Lemma run_snoc ws l : run (ws ++ [l]) = step (run ws) l.
Proof. unfold run. rewrite fold_left_app. reflexivity. Qed.

Lemma hist_snoc k ws l : hist k (ws ++ [l]) = hstep k (hist k ws) l.
Proof. unfold hist. rewrite fold_left_app. reflexivity. Qed.

Lemma pieces_of_app k a b : pieces_of k (a ++ b) = pieces_of k a ++ pieces_of k b.
Proof.
  induction a as [|[x s] a IH]; simpl; auto.
  destruct (key_eqb x k); simpl; rewrite IH; reflexivity.
Qed.

Lemma writes_of_app k a b : writes_of k (a ++ b) = writes_of k a ++ writes_of k b.
Proof.
  induction a as [|[x s] a IH]; simpl; auto.
  destruct (key_eqb x k); rewrite IH, ?app_assoc; reflexivity.
Qed.

(** the real stdout receives every write, in order *)
Lemma real_all ws : real ws = map text_of ws.
Proof.
  unfold real. induction ws as [|[a s] ws IH] using rev_ind; auto.
  rewrite run_snoc, map_app.
  destruct (step_spec (run ws) a s) as [(_ & E)|(_ & E)]; rewrite E.
  - unfold dropping; simpl. rewrite IH; reflexivity.
  - unfold flushing; destruct (has_nl s); simpl; rewrite IH; reflexivity.
Qed.

(** every event carries a key other than None and a text ending in NL *)
Lemma events_wf ws :
  Forall (fun e => fst e <> None /\ ends_nl (snd e) = true) (events ws).
Proof.
  unfold events. induction ws as [|[a s] ws IH] using rev_ind.
  - constructor.
  - rewrite run_snoc.
    destruct (step_spec (run ws) a s) as [(_ & E)|(N & E)]; rewrite E.
    + exact IH.
    + unfold flushing; destruct (has_nl s) eqn:En; simpl; auto.
      apply Forall_app; split; auto. constructor; auto. simpl; split; auto.
      apply upto_ends. rewrite has_nl_app, En. apply orb_true_r.
Qed.

(** the model's buffer and events of a traced key are the history functions *)
Lemma run_hist ws k :
  traced k ->
  dd_get (buffer_of ws) k = unflushed k ws /\
  pieces_of k (events ws) = pieces_hist k ws.
Proof.
  intro T. apply traced_truthy in T.
  unfold buffer_of, events, unflushed, pieces_hist.
  induction ws as [|[a s] ws (IHb & IHe)] using rev_ind; auto.
  rewrite run_snoc, hist_snoc. unfold hstep.
  destruct (step_spec (run ws) a s) as [(F & E)|(N & E)]; rewrite E.
  - assert (key_eqb a k = false) as ->.
    { apply key_eqb_neq; intro; subst; congruence. }
    unfold dropping; simpl; auto.
  - unfold flushing. destruct (key_eqb a k) eqn:Ek.
    + apply key_eqb_eq in Ek; subst a.
      destruct (has_nl s); cbn [fst snd w_events].
      * rewrite keep_rest_get, key_eqb_refl, pieces_of_app. cbn [pieces_of].
        rewrite key_eqb_refl, IHb, IHe. auto.
      * rewrite dd_get_set, key_eqb_refl, IHb, IHe. auto.
    + destruct (has_nl s); cbn [fst snd w_events].
      * rewrite keep_rest_get, Ek, pieces_of_app. cbn [pieces_of]. rewrite Ek, app_nil_r. auto.
      * rewrite dd_get_set, Ek. auto.
Qed.

(** ** history lemmas *)

Lemma hist_exact k ws : concat (pieces_hist k ws) ++ unflushed k ws = writes_of k ws.
Proof.
  unfold pieces_hist, unflushed.
  induction ws as [|[a s] ws IH] using rev_ind; auto.
  rewrite hist_snoc, writes_of_app; simpl. rewrite app_nil_r.
  destruct (key_eqb a k); [|rewrite app_nil_r; exact IH].
  rewrite <- IH.
  destruct (has_nl s); simpl.
  - rewrite concat_app; simpl. rewrite app_nil_r, <- !app_assoc. f_equal.
    symmetry. apply upto_split.
  - rewrite app_assoc. reflexivity.
Qed.

Lemma hist_pieces_end k ws : Forall (fun p => ends_nl p = true) (pieces_hist k ws).
Proof.
  unfold pieces_hist.
  induction ws as [|[a s] ws IH] using rev_ind; [constructor|].
  rewrite hist_snoc; simpl.
  destruct (key_eqb a k); auto.
  destruct (has_nl s) eqn:E; simpl; auto.
  apply Forall_app; split; auto. constructor; auto.
  apply upto_ends. rewrite has_nl_app, E. apply orb_true_r.
Qed.

Lemma concat_ends l :
  Forall (fun p => ends_nl p = true) l -> concat l = [] \/ ends_nl (concat l) = true.
Proof.
  induction l as [|p l IH] using rev_ind; auto.
  intro F. apply Forall_app in F as (_ & F). inversion F; subst.
  right. rewrite concat_app; simpl. rewrite app_nil_r. apply ends_nl_app; auto.
Qed.

Lemma hist_only_gen k ws acc : fold_left (hstep k) (only k ws) acc = fold_left (hstep k) ws acc.
Proof.
  revert acc. induction ws as [|[a s] ws IH]; intro acc; simpl; auto.
  destruct (key_eqb a k) eqn:E; simpl; rewrite ?E, IH; reflexivity.
Qed.

Lemma hist_only k ws : hist k (only k ws) = hist k ws.
Proof. apply hist_only_gen. Qed.

Lemma unflushed_no_nl k ws : has_nl (unflushed k ws) = false.
Proof.
  unfold unflushed.
  induction ws as [|[a s] ws IH] using rev_ind; auto.
  rewrite hist_snoc; simpl.
  destruct (key_eqb a k); auto.
  destruct (has_nl s) eqn:E; simpl.
  - apply after_no_nl.
  - rewrite has_nl_app, IH, E. reflexivity.
Qed.

(** ** the statements used by Props/C13.v *)

Lemma model_pieces_end ws k line :
  In (k, line) (events ws) -> k <> None /\ exists body, line = body ++ [NL].
Proof.
  intro I. pose proof (events_wf ws) as F. rewrite Forall_forall in F.
  destruct (F _ I) as (N & E). split; auto. apply ends_nl_spec; auto.
Qed.

Lemma model_untraced_dropped ws line : ~ In (None, line) (events ws).
Proof. intro I. apply model_pieces_end in I as (N & _). contradiction. Qed.

Lemma model_exactly_once ws n :
  n <> 0 ->
  reported_of (Some n) (events ws) ++ unflushed (Some n) ws = writes_of (Some n) ws.
Proof.
  intro Hn. assert (T : traced (Some n)) by (exists n; auto).
  unfold reported_of. destruct (run_hist ws _ T) as (_ & ->). apply hist_exact.
Qed.

Lemma model_prefix ws n :
  n <> 0 -> exists rest, writes_of (Some n) ws = reported_of (Some n) (events ws) ++ rest.
Proof. intro Hn. eexists. symmetry. apply model_exactly_once; auto. Qed.

Lemma model_reported_ends ws n :
  n <> 0 ->
  reported_of (Some n) (events ws) = [] \/ ends_nl (reported_of (Some n) (events ws)) = true.
Proof.
  intro Hn. assert (T : traced (Some n)) by (exists n; auto).
  unfold reported_of. destruct (run_hist ws _ T) as (_ & ->).
  apply concat_ends, hist_pieces_end.
Qed.

Lemma model_pending_no_nl ws n : has_nl (unflushed (Some n) ws) = false.
Proof. apply unflushed_no_nl. Qed.

Lemma model_upto ws n :
  n <> 0 ->
  reported_of (Some n) (events ws) = upto_last_nl (writes_of (Some n) ws).
Proof.
  intro Hn. rewrite <- (model_exactly_once ws n Hn). symmetry.
  apply upto_unique; [apply model_reported_ends; auto | apply unflushed_no_nl].
Qed.

Lemma model_interleaving ws n :
  n <> 0 ->
  pieces_of (Some n) (events ws) = pieces_of (Some n) (events (only (Some n) ws)).
Proof.
  intro Hn. assert (T : traced (Some n)) by (exists n; auto).
  destruct (run_hist ws _ T) as (_ & ->).
  destruct (run_hist (only (Some n) ws) _ T) as (_ & ->).
  unfold pieces_hist. rewrite hist_only. reflexivity.
Qed.

Lemma model_pending ws n :
  n <> 0 -> dd_get (buffer_of ws) (Some n) = unflushed (Some n) ws.
Proof. intro Hn. apply run_hist. exists n; auto. Qed.
