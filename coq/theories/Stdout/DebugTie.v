(** TIE for the last sentence of C13: "Text produced by the debugger itself (prompts, command
    output) is never reported as script output, and the real standard output still receives
    everything the script wrote."

    Gen/DebuggerStream.v holds the statement trees of StdInOut.__init__/write/flush/readline, of
    Factory._factory (how each Pdb is constructed), of CustomizedPdb.__init__'s call of
    Pdb.__init__, of peek_textio and the wrapper it installs on sys.stdout.write, of
    peek_stdout / peek_stdout_by_key and of Repeater.on_write_stdout, REGENERATED from the source
    at every check (translate/debugger_stream.py, fail closed).  This file
      1. gives the trees a semantics (an interpreter with an oracle for the calls that leave the
         fragment: prompt function, callback, original write);
      2. proves, for ALL object states / arguments / oracle answers, what each regenerated method
         does ([write_spec], [readline_spec], [wrapper_spec], ...) -- the only lemmas that look
         at the regenerated terms;
      3. defines the TWO-SINK run: a run is any list of labels
           LScript a s        the script calls sys.stdout.write(s) while current_trace_no() = a
           LDbgWrite n s      the Pdb of trace n writes s to ITS stdout (print(.., file=self.stdout),
                              self.stdout.write(self.prompt)); Pdb runs IN the traced thread, so
                              current_trace_no() = n while it does
           LDbgFlush n        self.stdout.flush()
           LDbgReadline n c   self.stdin.readline(); the prompt function (the user) answers c
         where WHICH object "its stdout / stdin" is, is computed from the regenerated factory;
      4. proves for all label lists (= all interleavings, all texts) non-interference of the
         debugger's writes with what is reported, passthrough of the script's writes to the
         real stdout, and that each prompt text is exactly what that debugger wrote since its
         last readline.

    The behaviour of pdb.Pdb / cmd.Cmd (CPython) is NOT translated.  Writing to the `stdout` they were constructed
    with (and reading commands with `stdin.readline()`) are the labels LDbgWrite/LDbgFlush/LDbgReadline; what
    CPython's pdb does BESIDE that has labels of its own: LDbgSysWrite (`help pdb` -> pydoc.pager -> sys.stdout;
    `interact` -> input() prompt) and LSwapOn/LSwapOff (Pdb.default binds sys.stdout to its own stream, process-wide,
    while a `!statement` runs).  The theorems about the debugger's text carry the assumptions as HYPOTHESES on the
    label list ([no_sys_write], [no_swap]); [reported_and_real_exact] says what happens without them, and section 8b
    gives the two witnesses that the assumptions are false of CPython 3.12's pdb (both reproduced against /repo by
    harness/props/c13.py: known findings).  Also assumed: one Pdb per trace number, running in the thread or task of
    that trace (C06's tie); a write() call is atomic with respect to the others. *)
From NL Require Import Stdout.Spec Stdout.Proofs Stdout.DebugSyntax Gen.DebuggerStream.
From Coq Require Import String Lia.
Open Scope Z_scope.

(** ================================================================== 1. the interpreter *)
Inductive val :=
| VNone
| VText (t : text)
| VInt (z : Z)
| VPromptFn        (* the function PromptFunc(hook) returns: asks the user, returns the command *)
| VJunk.           (* a value the translation does not follow *)

Definition store := string -> val.
Definition upd (st : store) (k : string) (v : val) : store :=
  fun x => if String.eqb x k then v else st x.
Definition empty_store : store := fun _ => VJunk.

(** a call that leaves the translated fragment *)
Inductive effect :=
| FxPrompt (v : val)                 (* the prompt function is called with v *)
| FxCall (f : string) (v : val)      (* the variable f of the enclosing function is called with v *)
| FxSysWrite (v : val).              (* sys.stdout.write(v) *)

(** the environment's answer to such a call; None = the call raised *)
Definition oracle := effect -> option val.

Inductive outcome := ONormal | OReturn (v : val) | ORaise.

Record frame := mkF { f_self : store; f_vars : store; f_fx : list effect }.

Definition add_fx (fr : frame) (x : effect) : frame := mkF (f_self fr) (f_vars fr) (f_fx fr ++ [x]).
Definition set_self (fr : frame) (a : string) (v : val) : frame := mkF (upd (f_self fr) a v) (f_vars fr) (f_fx fr).
Definition set_var (fr : frame) (x : string) (v : val) : frame := mkF (f_self fr) (upd (f_vars fr) x v) (f_fx fr).

Definition truthy (v : val) : bool :=
  match v with
  | VNone => false
  | VText t => truthy_text t
  | VInt z => negb (Z.eqb z 0)
  | VPromptFn | VJunk => true
  end.

(** `a + b`: str + str, int + int; anything else raises TypeError *)
Definition v_add (a b : val) : option val :=
  match a, b with
  | VText x, VText y => Some (VText (str_add x y))
  | VInt x, VInt y => Some (VInt (x + y))
  | _, _ => None
  end.

Definition v_len (a : val) : option val :=
  match a with VText t => Some (VInt (Z.of_nat (List.length t))) | _ => None end.

Definition v_endswith (a b : val) : option bool :=
  match a, b with VText x, VText y => Some (str_endswith x y) | _, _ => None end.

Fixpoint eval (o : oracle) (fr : frame) (e : expr) : frame * option val :=
  match e with
  | EVar x => (fr, Some (f_vars fr x))
  | EAttr a => (fr, Some (f_self fr a))
  | EStr t => (fr, Some (VText t))
  | ENone => (fr, Some VNone)
  | EOpaque => (fr, Some VJunk)
  | EAdd a b =>
      match eval o fr a with
      | (fr1, Some va) =>
          match eval o fr1 b with
          | (fr2, Some vb) => (fr2, v_add va vb)
          | (fr2, None) => (fr2, None)
          end
      | (fr1, None) => (fr1, None)
      end
  | ELen a =>
      match eval o fr a with
      | (fr1, Some va) => (fr1, v_len va)
      | (fr1, None) => (fr1, None)
      end
  | ECallAttr a arg =>
      match eval o fr arg with
      | (fr1, Some v) =>
          match f_self fr1 a with
          | VPromptFn => (add_fx fr1 (FxPrompt v), o (FxPrompt v))
          | _ => (fr1, None)                    (* not callable *)
          end
      | (fr1, None) => (fr1, None)
      end
  | ECallVar f arg =>
      match eval o fr arg with
      | (fr1, Some v) => (add_fx fr1 (FxCall f v), o (FxCall f v))
      | (fr1, None) => (fr1, None)
      end
  | ESysWrite arg =>
      match eval o fr arg with
      | (fr1, Some v) => (add_fx fr1 (FxSysWrite v), o (FxSysWrite v))
      | (fr1, None) => (fr1, None)
      end
  end.

Fixpoint ceval (o : oracle) (fr : frame) (c : cond) : frame * option bool :=
  match c with
  | CTruthy e =>
      match eval o fr e with
      | (fr1, Some v) => (fr1, Some (truthy v))
      | (fr1, None) => (fr1, None)
      end
  | CNot c' =>
      match ceval o fr c' with
      | (fr1, Some b) => (fr1, Some (negb b))
      | (fr1, None) => (fr1, None)
      end
  | CEndswith a b =>
      match eval o fr a with
      | (fr1, Some va) =>
          match eval o fr1 b with
          | (fr2, Some vb) => (fr2, v_endswith va vb)
          | (fr2, None) => (fr2, None)
          end
      | (fr1, None) => (fr1, None)
      end
  end.

Fixpoint exec (o : oracle) (s : stmt) (fr : frame) : frame * outcome :=
  match s with
  | SSkip => (fr, ONormal)
  | SSeq a b =>
      match exec o a fr with
      | (fr1, ONormal) => exec o b fr1
      | (fr1, r) => (fr1, r)
      end
  | SSetAttr a e =>
      match eval o fr e with
      | (fr1, Some v) => (set_self fr1 a v, ONormal)
      | (fr1, None) => (fr1, ORaise)
      end
  | SAugAttr a e =>
      (* self.a += e : self.a is loaded first, then e is evaluated, then the sum is stored *)
      let old := f_self fr a in
      match eval o fr e with
      | (fr1, Some v) =>
          match v_add old v with
          | Some r => (set_self fr1 a r, ONormal)
          | None => (fr1, ORaise)
          end
      | (fr1, None) => (fr1, ORaise)
      end
  | SSetVar x e =>
      match eval o fr e with
      | (fr1, Some v) => (set_var fr1 x v, ONormal)
      | (fr1, None) => (fr1, ORaise)
      end
  | SExpr e =>
      match eval o fr e with
      | (fr1, Some _) => (fr1, ONormal)
      | (fr1, None) => (fr1, ORaise)
      end
  | SReturn e =>
      match eval o fr e with
      | (fr1, Some v) => (fr1, OReturn v)
      | (fr1, None) => (fr1, ORaise)
      end
  | SIf c a b =>
      match ceval o fr c with
      | (fr1, Some true) => exec o a fr1
      | (fr1, Some false) => exec o b fr1
      | (fr1, None) => (fr1, ORaise)
      end
  | SAssert c =>
      match ceval o fr c with
      | (fr1, Some true) => (fr1, ONormal)
      | (fr1, _) => (fr1, ORaise)               (* AssertionError *)
      end
  end.

(** binding of the arguments of a call: positional ones in parameter order, then keywords;
    a parameter that got nothing takes its default (a constant expression) *)
Fixpoint bind_pos (ps : list string) (vs : list val) (st : store) : store :=
  match ps, vs with
  | p :: ps', v :: vs' => bind_pos ps' vs' (upd st p v)
  | _, _ => st
  end.

Fixpoint bind_kw (kw : list (string * val)) (st : store) : store :=
  match kw with
  | [] => st
  | (k, v) :: r => bind_kw r (upd st k v)
  end.

Definition const_val (e : expr) : val :=
  match e with ENone => VNone | EStr t => VText t | _ => VJunk end.

Fixpoint bind_defaults (ds : list (string * expr)) (st : store) : store :=
  match ds with
  | [] => st
  | (k, e) :: r => bind_defaults r (upd st k (const_val e))
  end.

Definition call (o : oracle) (m : method) (self : store) (pos : list val) (kw : list (string * val)) : frame * outcome :=
  exec o (m_body m) (mkF self (bind_kw kw (bind_pos (m_params m) pos (bind_defaults (m_defaults m) empty_store))) []).

(** the value a call evaluates to: a function that falls off its end returns None *)
Definition result_of (r : outcome) : option val :=
  match r with ONormal => Some VNone | OReturn v => Some v | ORaise => None end.

(** ================================================================== 2. the StdInOut object *)
(** StdInOut has three attributes *)
Record sobj := mkS { so_end : val; so_fn : val; so_text : val }.

Definition store_of (ob : sobj) : store :=
  upd (upd (upd empty_store "prompt_end" (so_end ob)) "_prompt" (so_fn ob)) "_prompt_text" (so_text ob).
Definition sobj_of (st : store) : sobj := mkS (st "prompt_end"%string) (st "_prompt"%string) (st "_prompt_text"%string).

Definition so_call (o : oracle) (m : method) (ob : sobj) (pos : list val) : sobj * list effect * option val :=
  let '(fr, r) := call o m (store_of ob) pos [] in
  (sobj_of (f_self fr), f_fx fr, result_of r).

(** ---- what the regenerated methods do, for every object state, argument and oracle *)

(** write(s): appends s to _prompt_text and nothing else; returns len(s); calls NOTHING outside
    (no sys.stdout, no callback, no prompt function) *)
Lemma write_spec : forall o e f t s,
  so_call o stdinout_write (mkS e f (VText t)) [VText s] =
  (mkS e f (VText (t ++ s)), [], Some (VInt (Z.of_nat (List.length s)))).
Proof. intros. reflexivity. Qed.

(** flush(): nothing *)
Lemma flush_spec : forall o ob, so_call o stdinout_flush ob [] = (ob, [], Some VNone).
Proof. intros o [e f t]. reflexivity. Qed.

(** prompt_end accepts the text: it is empty / None, or the text ends with it *)
Definition accepts (pe : val) (t : text) : bool :=
  match pe with
  | VText p => negb (truthy_text p) || str_endswith t p
  | VNone => true
  | _ => false
  end.

(** readline(): when the accumulated text is accepted, the prompt function is called ONCE with
    exactly that text, the text is cleared, and the command is returned; nothing else is called.
    When it is not accepted (AssertionError) nothing is called and nothing changes. *)
Lemma readline_spec_ok : forall (o : oracle) p t,
  accepts (VText p) t = true ->
  so_call o stdinout_readline (mkS (VText p) VPromptFn (VText t)) [] =
  (mkS (VText p) VPromptFn (VText []), [FxPrompt (VText t)], o (FxPrompt (VText t))).
Proof.
  intros o p t A. unfold accepts in A.
  unfold so_call, call, stdinout_readline; cbn.
  destruct p as [|c p]; cbn in *.
  - destruct (o (FxPrompt (VText t))); reflexivity.
  - unfold v_endswith. rewrite A. cbn. destruct (o (FxPrompt (VText t))); reflexivity.
Qed.

Lemma readline_spec_refused : forall (o : oracle) p t,
  accepts (VText p) t = false ->
  so_call o stdinout_readline (mkS (VText p) VPromptFn (VText t)) [] =
  (mkS (VText p) VPromptFn (VText t), [], None).
Proof.
  intros o p t A. unfold accepts in A.
  unfold so_call, call, stdinout_readline; cbn.
  destruct p as [|c p]; cbn in *; [discriminate|].
  unfold v_endswith. rewrite A. reflexivity.
Qed.

(** ================================================================== 3. the wrapper on sys.stdout.write *)
Definition wrapper_call (o : oracle) (s : val) : list effect * option val :=
  let '(fr, r) := call o peek_wrapper empty_store [s] [] in (f_fx fr, result_of r).

(** write(s): the callback is called with s, THEN the original write with the same s, and the
    wrapper returns what the original write returned -- whatever the callback returned *)
Lemma wrapper_spec : forall (o : oracle) s r,
  o (FxCall "callback" s) = Some r ->
  wrapper_call o s = ([FxCall "callback" s; FxCall "org_write" s], o (FxCall "org_write" s)).
Proof.
  intros o s r H. unfold wrapper_call, call, peek_wrapper; cbn. rewrite H. cbn.
  destruct (o (FxCall "org_write" s)); reflexivity.
Qed.

(** the one way the real stdout can miss a write: the callback raised, the exception reaches the writer *)
Lemma wrapper_spec_callback_raises : forall (o : oracle) s,
  o (FxCall "callback" s) = None ->
  wrapper_call o s = ([FxCall "callback" s], None).
Proof. intros o s H. unfold wrapper_call, call, peek_wrapper; cbn. rewrite H. reflexivity. Qed.

(** the same function as the Gallina transcription of purefuns_peek.py (Gen/PeekFuns.v: peek_write), on
    which Stdout/Model.v and all of C13's theorems are built: the effects of the wrapper, applied to a
    world in order, are peek_write *)
Section WrapperWorld.
  Variable W : Type.
  Variable cbk : text -> W -> W.
  Variable org : text -> W -> W.

  Definition apply_wfx (w : W) (x : effect) : W :=
    match x with
    | FxCall f (VText u) =>
        if String.eqb f "callback" then cbk u w
        else if String.eqb f "org_write" then org u w
        else w
    | _ => w
    end.

  (** the answers of a callback that returns None and of a stream whose write returns the number of characters *)
  Definition wr_oracle : oracle := fun x =>
    match x with
    | FxCall f (VText u) =>
        if String.eqb f "callback" then Some VNone
        else if String.eqb f "org_write" then Some (VInt (Z.of_nat (List.length u)))
        else None
    | _ => None
    end.

  Definition sys_write_w (s : text) (w : W) : W := fold_left apply_wfx (fst (wrapper_call wr_oracle (VText s))) w.

  Lemma sys_write_w_spec : forall s w, sys_write_w s w = org s (cbk s w).
  Proof. intros. reflexivity. Qed.

  Lemma sys_write_w_is_peek_write : forall s w, sys_write_w s w = peek_write cbk org s w.
  Proof. intros. reflexivity. Qed.

  Lemma sys_write_returns_len : forall s, snd (wrapper_call wr_oracle (VText s)) = Some (VInt (Z.of_nat (List.length s))).
  Proof. intros. reflexivity. Qed.
End WrapperWorld.

(** ---- peek_textio as a context manager: what `textio.write` is while the body of the `with` runs
    (at the yield) and after the block has been left *)
Inductive wfun := WOrg | WWrapper.
Record pst := mkP { p_cur : wfun; p_saved : option wfun; p_at_yield : list wfun }.

Fixpoint pexec (fuel : nat) (ps : list pstmt) (st : pst) : pst :=
  match fuel with
  | O => st
  | S f =>
    match ps with
    | [] => st
    | PSaveOrg :: r => pexec f r (mkP (p_cur st) (Some (p_cur st)) (p_at_yield st))
    | PInstall :: r => pexec f r (mkP WWrapper (p_saved st) (p_at_yield st))
    | PRestore :: r =>
        pexec f r (mkP (match p_saved st with Some x => x | None => p_cur st end) (p_saved st) (p_at_yield st))
    | PYield :: r => pexec f r (mkP (p_cur st) (p_saved st) (p_at_yield st ++ [p_cur st]))
    | PTryFinally a b :: r => pexec f r (pexec f b (pexec f a st))
    end
  end.

Definition peek_cm : pst := pexec 20 peek_textio_prog (mkP WOrg None []).

(** the wrapper is installed exactly while the block runs, the original write is back afterwards *)
Lemma peek_cm_spec : p_at_yield peek_cm = [WWrapper] /\ p_cur peek_cm = WOrg.
Proof. split; reflexivity. Qed.


(** ================================================================== 4. the callback: peek_stdout_by_key, on_write_stdout *)
(** Repeater.on_write_stdout(trace_no, line), from its regenerated description *)
Definition ows_sem (e : evspec) (current_trace_no : unit -> pykey) (trace_no : pykey) (line : text) (w : world) : world :=
  let k := match ev_trace_no e with KParam => trace_no | KCurrent => current_trace_no tt end in
  let l := if ev_text_is_line e then line else [] in
  mkWorld (w_events w ++ repeat (k, l) (ev_puts e)) (w_real w).

Lemma ows_is_model : forall ctn k line w,
  ows_sem on_write_stdout_event ctn k line w = on_write_stdout ctn k line w.
Proof. intros. reflexivity. Qed.

Definition ksem (c : kcb) (user : pykey -> text -> world -> world) : pykey -> text -> buf * world -> buf * world :=
  match c with
  | KUser => fun k t st => (fst st, user k t (snd st))
  | KLinesUser => read_lines_by_key user
  end.

Definition usem (u : ucb) (key_factory : unit -> pykey) (user : pykey -> text -> world -> world)
  : text -> buf * world -> buf * world :=
  match u with UAssignKey c => assign_key key_factory (ksem c user) end.

(** the callback peek_textio gets while current_trace_no() = a *)
Definition the_callback (a : pykey) : text -> buf * world -> buf * world :=
  usem peek_wiring (fun _ => a) (ows_sem on_write_stdout_event (fun _ => a)).

(** one call of the patched sys.stdout.write = one step of Stdout/Model.v *)
Lemma sys_write_is_model_step : forall a s st,
  sys_write_w (buf * world) (the_callback a) org_write s st = step st (Write a s).
Proof. intros. reflexivity. Qed.

(** ================================================================== 5. how each Pdb is constructed *)
Definition str_assoc {A} (k : string) (l : list (string * A)) : option A :=
  match find (fun p => String.eqb (fst p) k) l with Some p => Some (snd p) | None => None end.

(** the variables of Factory / _factory that hold a StdInOut object: (name, inner?, object) *)
Record fenv := mkFE {
  fe_objs : list (string * (bool * sobj));
  fe_pdbs : list (string * list (string * sexp));
  fe_ret : option string
}.

Definition farg_val (prompt : text) (a : farg) : val :=
  match a with
  | FAPromptFunc => VPromptFn
  | FANone => VNone
  | FAStr t => VText t
  | FAPdbPrompt _ => VText prompt
  end.

Definition o_none : oracle := fun _ => None.

(** StdInOut(<pos>, <kw>): the regenerated __init__ run on a fresh object *)
Definition new_stdio (prompt : text) (pos : list farg) (kw : list (string * farg)) : sobj :=
  let '(fr, _) := call o_none stdinout_init empty_store (map (farg_val prompt) pos)
                    (map (fun p => (fst p, farg_val prompt (snd p))) kw) in
  sobj_of (f_self fr).

Definition set_attr (ob : sobj) (a : string) (v : val) : sobj := sobj_of (upd (store_of ob) a v).

Definition upd_obj (x : string) (f : sobj -> sobj) (l : list (string * (bool * sobj))) : list (string * (bool * sobj)) :=
  map (fun p => if String.eqb (fst p) x then (fst p, (fst (snd p), f (snd (snd p)))) else p) l.

Definition fstep (prompt : text) (inner : bool) (e : fenv) (s : fstmt) : fenv :=
  match s with
  | FNewStdio x pos kw => mkFE ((x, (inner, new_stdio prompt pos kw)) :: fe_objs e) (fe_pdbs e) (fe_ret e)
  | FNewPdb p args => mkFE (fe_objs e) ((p, args) :: fe_pdbs e) (fe_ret e)
  | FSetAttr x a v => mkFE (upd_obj x (fun ob => set_attr ob a (farg_val prompt v)) (fe_objs e)) (fe_pdbs e) (fe_ret e)
  | FReturnDispatch p => mkFE (fe_objs e) (fe_pdbs e) (Some p)
  end.

(** the state after Factory(hook) and one call of _factory() *)
Definition built (prompt : text) : fenv :=
  fold_left (fstep prompt true) factory_inner (fold_left (fstep prompt false) factory_outer (mkFE [] [] None)).

(** a stream argument of CustomizedPdb(...) *)
Definition stream_of_sexp (e : fenv) (x : sexp) : stream :=
  match x with
  | XName n => match str_assoc n (fe_objs e) with
               | Some (true, _) => SelfStdio n
               | Some (false, _) => SharedStdio n
               | None => Unresolved
               end
  | XSysStdout => SysStdout
  | XSysStdin => SysStdin
  | XOther n => OtherStream n
  | XAbsent => PdbDefault
  end.

(** what Pdb.__init__ receives: CustomizedPdb.__init__ hands on its own parameter (XName q),
    or something of its own *)
Definition through_init (e : fenv) (args : list (string * sexp)) (x : sexp) : stream :=
  match x with
  | XName q => match str_assoc q args with Some a => stream_of_sexp e a | None => Unresolved end
  | XSysStdout => SysStdout
  | XSysStdin => SysStdin
  | XOther n => OtherStream n
  | XAbsent => PdbDefault
  end.

(** (stdin, stdout) of the Pdb whose trace_dispatch _factory() returns *)
Definition pdb_streams (prompt : text) : option (stream * stream) :=
  let e := built prompt in
  match fe_ret e with
  | Some p => match str_assoc p (fe_pdbs e) with
              | Some args => Some (through_init e args (fst pdb_super_init), through_init e args (snd pdb_super_init))
              | None => None
              end
  | None => None
  end.

(** the StdInOut object a stream term denotes, as _factory() leaves it *)
Definition obj_of_stream (prompt : text) (s : stream) : option sobj :=
  match s with
  | SelfStdio x | SharedStdio x =>
      match str_assoc x (fe_objs (built prompt)) with Some (_, ob) => Some ob | None => None end
  | _ => None
  end.

(** a stream of nextline's own, not one of the process *)
Definition is_private (s : stream) : bool :=
  match s with SelfStdio _ | SharedStdio _ => true | _ => false end.

Definition is_own (s : stream) : bool :=
  match s with SelfStdio _ => true | _ => false end.

Definition stream_eqb (a b : stream) : bool :=
  match a, b with
  | SelfStdio x, SelfStdio y | SharedStdio x, SharedStdio y | OtherStream x, OtherStream y => String.eqb x y
  | SysStdout, SysStdout | SysStdin, SysStdin | PdbDefault, PdbDefault | Unresolved, Unresolved => true
  | _, _ => false
  end.

(** (A) Pdb's output stream is a StdInOut object -- NOT sys.stdout, and not left to Pdb's default *)
Lemma pdb_stdout_private : forall prompt,
  exists i o, pdb_streams prompt = Some (i, o) /\ is_private o = true.
Proof. intro. eexists; eexists; split; reflexivity. Qed.

(** (B) it is an object created by THIS call of _factory (one per trace, not one for all), the
    same object Pdb reads its commands from, and _factory() leaves it with an empty text, the
    prompt function, and prompt_end = pdb.prompt *)
Lemma pdb_streams_own : forall prompt,
  exists x, pdb_streams prompt = Some (SelfStdio x, SelfStdio x) /\
            obj_of_stream prompt (SelfStdio x) = Some (mkS (VText prompt) VPromptFn (VText [])).
Proof. intro. eexists; split; reflexivity. Qed.

(** ================================================================== 6. the two-sink run *)
Inductive dlabel :=
| LScript (a : pykey) (s : text)
| LDbgWrite (n : Z) (s : text)
| LDbgFlush (n : Z)
| LDbgReadline (n : Z) (c : text)
(* what CPython's pdb does BESIDE writing to the stdout it was constructed with: *)
| LDbgSysWrite (n : Z) (s : text)   (* the Pdb of trace n writes s to sys.stdout: `help pdb` (pydoc.pager), the prompt of
                                       `interact` (input()), an override that print()s *)
| LSwapOn (n : Z)                   (* Pdb.default of trace n (a `!statement` / any Python statement as a command):
                                       save_stdout = sys.stdout; sys.stdout = self.stdout   -- PROCESS-WIDE *)
| LSwapOff (n : Z).                 (* ... finally: sys.stdout = save_stdout *)

(** what `sys.stdout` is bound to: the object peek_textio patched, or the stdout of trace n's Pdb *)
Inductive sysout := Patched | Swapped (n : Z).
Definition zupd (f : Z -> sysout) (n : Z) (v : sysout) : Z -> sysout := fun m => if Z.eqb m n then v else f m.

(** the assumptions under which the debugger is "well behaved", as predicates on the label list *)
Definition no_sys_write (ls : list dlabel) : Prop :=
  forallb (fun l => match l with LDbgSysWrite _ _ => false | _ => true end) ls = true.
Definition no_swap (ls : list dlabel) : Prop :=
  forallb (fun l => match l with LSwapOn _ | LSwapOff _ => false | _ => true end) ls = true.

(** the writes that reach the PATCHED sys.stdout.write, in order: a script write or a debugger's sys.stdout write made
    while sys.stdout is the patched object (sy: what sys.stdout is, sv: the save_stdout of each trace's Pdb.default) *)
Fixpoint reaching_go (ls : list dlabel) (sy : sysout) (sv : Z -> sysout) : list label :=
  match ls with
  | [] => []
  | LScript a s :: r =>
      match sy with Patched => Write a s :: reaching_go r sy sv | Swapped _ => reaching_go r sy sv end
  | LDbgSysWrite n s :: r =>
      match sy with Patched => Write (Some n) s :: reaching_go r sy sv | Swapped _ => reaching_go r sy sv end
  | LSwapOn n :: r => reaching_go r (Swapped n) (zupd sv n sy)
  | LSwapOff n :: r => reaching_go r (sv n) sv
  | _ :: r => reaching_go r sy sv
  end.
Definition reaching (ls : list dlabel) : list label := reaching_go ls Patched (fun _ => Patched).

(** what the script wrote, as the labels of Stdout/Model.v; the run without the debugger *)
Fixpoint script_writes (ls : list dlabel) : list label :=
  match ls with
  | [] => []
  | LScript a s :: r => Write a s :: script_writes r
  | _ :: r => script_writes r
  end.

Definition is_script (l : dlabel) : bool := match l with LScript _ _ => true | _ => false end.
Definition erase_dbg (ls : list dlabel) : list dlabel := filter is_script ls.

(** everything the debugger of trace n wrote, concatenated in order *)
Fixpoint dbg_writes_of (n : Z) (ls : list dlabel) : text :=
  match ls with
  | [] => []
  | LDbgWrite m s :: r => if Z.eqb m n then s ++ dbg_writes_of n r else dbg_writes_of n r
  | _ :: r => dbg_writes_of n r
  end.

Definition quiet_fx (x : effect) : bool := match x with FxPrompt _ => true | _ => false end.

(** for EVERY object state, argument and oracle: write and flush call nothing, readline calls at
    most the prompt function -- none of them writes to sys.stdout or calls the callback *)
Lemma write_quiet : forall o ob v, snd (fst (so_call o stdinout_write ob [v])) = [].
Proof. intros o [e f t] v. destruct t, v; reflexivity. Qed.

Lemma flush_quiet : forall o ob, snd (fst (so_call o stdinout_flush ob [])) = [].
Proof. intros o [e f t]. reflexivity. Qed.

Lemma readline_quiet : forall o ob, forallb quiet_fx (snd (fst (so_call o stdinout_readline ob []))) = true.
Proof.
  intros o [e f t]. unfold so_call, call, stdinout_readline.
  destruct e as [|[|c p]|z| |], f, t; cbn; try reflexivity;
    repeat (match goal with
            | |- context [if ?b then _ else _] => destruct b
            | |- context [o ?x] => destruct (o x)
            end; cbn); reflexivity.
Qed.

Arguments accepts : simpl never.

Section TwoSink.
  Variable W : Type.
  Variable cbk : pykey -> text -> W -> W.     (* the callback peek_textio got, run while current_trace_no() = key *)
  Variable org : text -> W -> W.              (* the original sys.stdout.write *)
  Variable prompt : text.                     (* Pdb.prompt *)

  Record gstate := mkG {
    g_w : W;
    g_objs : pykey -> string -> sobj;         (* StdInOut objects: owner (Some n: made by the _factory() call of trace n;
                                                 None: made once by Factory) and the variable that holds it *)
    g_prompts : list (Z * text);              (* calls of the prompt function: (trace whose Pdb asked, text) *)
    g_cmds : list (Z * text);                 (* what readline returned to the Pdb of trace n *)
    g_sys : sysout;                           (* what sys.stdout is bound to *)
    g_saved : Z -> sysout                     (* save_stdout of the Pdb.default call of trace n *)
  }.

  Definition set_w (w : W) (st : gstate) : gstate := mkG w (g_objs st) (g_prompts st) (g_cmds st) (g_sys st) (g_saved st).
  Definition set_obj (ow : pykey) (x : string) (ob : sobj) (st : gstate) : gstate :=
    mkG (g_w st) (fun o' x' => if key_eqb o' ow && String.eqb x' x then ob else g_objs st o' x') (g_prompts st) (g_cmds st)
        (g_sys st) (g_saved st).

  (** one call of the PATCHED sys.stdout.write(s) while current_trace_no() = a: the regenerated wrapper *)
  Definition sys_write (a : pykey) (s : text) (st : gstate) : gstate :=
    set_w (sys_write_w W (cbk a) org s (g_w st)) st.

  Definition obj_oracle (c : text) : oracle := fun x =>
    match x with
    | FxPrompt _ => Some (VText c)
    | FxSysWrite (VText u) => Some (VInt (Z.of_nat (List.length u)))
    | _ => None
    end.

  (** the calls a method of StdInOut made, executed by trace n *)
  Definition apply_ofx (n : Z) (st : gstate) (x : effect) : gstate :=
    match x with
    | FxPrompt (VText t) => mkG (g_w st) (g_objs st) (g_prompts st ++ [(n, t)]) (g_cmds st) (g_sys st) (g_saved st)
    | FxSysWrite (VText u) => sys_write (Some n) u st
    | _ => st
    end.

  Definition on_obj (ow : pykey) (x : string) (n : Z) (m : method) (c : text) (pos : list val) (is_readline : bool)
      (st : gstate) : gstate :=
    let '(ob', fx, r) := so_call (obj_oracle c) m (g_objs st ow x) pos in
    let st1 := fold_left (apply_ofx n) fx (set_obj ow x ob' st) in
    match is_readline, r with
    | true, Some (VText c') => mkG (g_w st1) (g_objs st1) (g_prompts st1) (g_cmds st1 ++ [(n, c')]) (g_sys st1) (g_saved st1)
    | _, _ => st1
    end.

  Definition to_stream (s : stream) (n : Z) (m : method) (c : text) (pos : list val) (rl : bool) (st : gstate) : gstate :=
    match s with
    | SelfStdio x => on_obj (Some n) x n m c pos rl st
    | SharedStdio x => on_obj None x n m c pos rl st
    | _ => st
    end.

  Definition pdb_stdin : stream := match pdb_streams prompt with Some (i, _) => i | None => Unresolved end.
  Definition pdb_stdout : stream := match pdb_streams prompt with Some (_, o) => o | None => Unresolved end.

  (** the Pdb of trace n writes s to the stdout it was constructed with *)
  Definition dbg_write (n : Z) (s : text) (st : gstate) : gstate :=
    match pdb_stdout with
    | SysStdout | PdbDefault => sys_write (Some n) s st     (* Pdb prints through the patched sys.stdout, in trace n *)
    | so => to_stream so n stdinout_write [] [VText s] false st
    end.

  (** `sys.stdout.write(s)` / print(s) executed while current_trace_no() = a: sys.stdout is looked up at the call *)
  Definition cur_sys_write (a : pykey) (s : text) (st : gstate) : gstate :=
    match g_sys st with
    | Patched => sys_write a s st
    | Swapped n => dbg_write n s st          (* lands in the stream of trace n's Pdb *)
    end.

  Definition dstep (st : gstate) (l : dlabel) : gstate :=
    match l with
    | LScript a s => cur_sys_write a s st
    | LDbgWrite n s => dbg_write n s st
    | LDbgFlush n => to_stream pdb_stdout n stdinout_flush [] [] false st
    | LDbgReadline n c => to_stream pdb_stdin n stdinout_readline c [] true st
    | LDbgSysWrite n s => cur_sys_write (Some n) s st
    | LSwapOn n => mkG (g_w st) (g_objs st) (g_prompts st) (g_cmds st) (Swapped n) (zupd (g_saved st) n (g_sys st))
    | LSwapOff n => mkG (g_w st) (g_objs st) (g_prompts st) (g_cmds st) (g_saved st n) (g_saved st)
    end.

  Definition init_obj (x : string) : sobj :=
    match obj_of_stream prompt (SelfStdio x) with Some ob => ob | None => mkS VJunk VJunk VJunk end.

  Definition ginit (w : W) : gstate := mkG w (fun _ x => init_obj x) [] [] Patched (fun _ => Patched).
  Definition grun (w : W) (ls : list dlabel) : gstate := fold_left dstep ls (ginit w).

  (** ---- the debugger's labels never touch the world of the callback / the real stdout *)
  Lemma apply_ofx_quiet : forall n fx st, forallb quiet_fx fx = true -> g_w (fold_left (apply_ofx n) fx st) = g_w st.
  Proof.
    intros n fx. induction fx as [|x fx IH]; intros st H; simpl in *; auto.
    apply andb_prop in H. destruct H as [Hx H]. rewrite IH by exact H.
    destruct x; try discriminate. destruct v; reflexivity.
  Qed.

  Definition quiet_method (m : method) : Prop :=
    forall o ob pos, forallb quiet_fx (snd (fst (so_call o m ob pos))) = true.

  Lemma on_obj_w : forall ow x n m c pos rl st,
    forallb quiet_fx (snd (fst (so_call (obj_oracle c) m (g_objs st ow x) pos))) = true ->
    g_w (on_obj ow x n m c pos rl st) = g_w st.
  Proof.
    intros. unfold on_obj. destruct (so_call (obj_oracle c) m (g_objs st ow x) pos) as [[ob' fx] r]; simpl in *.
    assert (E : g_w (fold_left (apply_ofx n) fx (set_obj ow x ob' st)) = g_w st) by (rewrite apply_ofx_quiet; auto).
    destruct rl; auto. destruct r as [[]|]; auto.
  Qed.

  Lemma to_stream_w : forall s n m c pos rl st,
    (forall ob, forallb quiet_fx (snd (fst (so_call (obj_oracle c) m ob pos))) = true) ->
    g_w (to_stream s n m c pos rl st) = g_w st.
  Proof. intros. destruct s; simpl; auto; apply on_obj_w; auto. Qed.

  (** ---- sys.stdout's binding changes only at the swap labels *)
  Definition g_sw (st : gstate) : sysout * (Z -> sysout) := (g_sys st, g_saved st).

  Lemma apply_ofx_sw : forall n fx st, g_sw (fold_left (apply_ofx n) fx st) = g_sw st.
  Proof.
    intros n fx. induction fx as [|x fx IH]; intro st; simpl; auto.
    rewrite IH. destruct x; try reflexivity; destruct v; reflexivity.
  Qed.

  Lemma on_obj_sw : forall ow x n m c pos rl st, g_sw (on_obj ow x n m c pos rl st) = g_sw st.
  Proof.
    intros. unfold on_obj. destruct (so_call (obj_oracle c) m (g_objs st ow x) pos) as [[ob' fx] r].
    assert (E : g_sw (fold_left (apply_ofx n) fx (set_obj ow x ob' st)) = g_sw st) by (rewrite apply_ofx_sw; reflexivity).
    destruct rl; auto. destruct r as [[]|]; auto.
  Qed.

  Lemma to_stream_sw : forall s n m c pos rl st, g_sw (to_stream s n m c pos rl st) = g_sw st.
  Proof. intros. destruct s; simpl; auto; apply on_obj_sw. Qed.

  Lemma dbg_write_sw : forall n s st, g_sw (dbg_write n s st) = g_sw st.
  Proof. intros. unfold dbg_write. destruct pdb_stdout; try reflexivity; apply to_stream_sw. Qed.

  Lemma cur_sys_write_sw : forall a s st, g_sw (cur_sys_write a s st) = g_sw st.
  Proof. intros. unfold cur_sys_write. destruct (g_sys st); [reflexivity | apply dbg_write_sw]. Qed.

  Lemma dstep_sw : forall st l,
    g_sw (dstep st l) =
    match l with
    | LSwapOn n => (Swapped n, zupd (g_saved st) n (g_sys st))
    | LSwapOff n => (g_saved st n, g_saved st)
    | _ => g_sw st
    end.
  Proof.
    intros st l. destruct l; unfold dstep; try reflexivity;
      auto using cur_sys_write_sw, dbg_write_sw, to_stream_sw.
  Qed.

  (** a write to the stdout the Pdb was constructed with never touches the world of the callback / the real stdout *)
  Lemma dbg_write_w : forall n s st, g_w (dbg_write n s st) = g_w st.
  Proof.
    intros. destruct (pdb_stdout_private prompt) as (i & o & HS & HP).
    unfold dbg_write, pdb_stdout; rewrite HS.
    destruct o; try discriminate; apply to_stream_w; intro ob; rewrite write_quiet; reflexivity.
  Qed.

  Lemma dstep_w : forall st l,
    g_w (dstep st l) =
    match l, g_sys st with
    | LScript a s, Patched => org s (cbk a s (g_w st))
    | LDbgSysWrite n s, Patched => org s (cbk (Some n) s (g_w st))
    | _, _ => g_w st
    end.
  Proof.
    intros st l.
    destruct l as [a s|n s|n|n c|n s|n|n]; unfold dstep.
    - unfold cur_sys_write. destruct (g_sys st); [reflexivity | apply dbg_write_w].
    - rewrite dbg_write_w. destruct (g_sys st); reflexivity.
    - rewrite to_stream_w; [destruct (g_sys st); reflexivity | intro ob; rewrite flush_quiet; reflexivity].
    - rewrite to_stream_w; [destruct (g_sys st); reflexivity | intro ob; apply readline_quiet].
    - unfold cur_sys_write. destruct (g_sys st); [reflexivity | apply dbg_write_w].
    - destruct (g_sys st); reflexivity.
    - destruct (g_sys st); reflexivity.
  Qed.

  Definition wstep (w : W) (l : label) : W := org (text_of l) (cbk (actor_of l) (text_of l) w).

  (** EXACT, no assumption on the debugger: the world after a run is that of the writes that REACH the patched
      sys.stdout, each through callback-then-original-write *)
  Lemma grun_w_gen : forall ls st,
    g_w (fold_left dstep ls st) = fold_left wstep (reaching_go ls (g_sys st) (g_saved st)) (g_w st).
  Proof.
    induction ls as [|l ls IH]; intro st; simpl; auto.
    rewrite IH, dstep_w.
    pose proof (f_equal fst (dstep_sw st l)) as E1. pose proof (f_equal snd (dstep_sw st l)) as E2.
    unfold g_sw in E1, E2. cbn [fst snd] in E1, E2. rewrite E1, E2.
    destruct l; cbn [fst snd]; try reflexivity; destruct (g_sys st); reflexivity.
  Qed.

  Lemma grun_w_reaching : forall w ls, g_w (grun w ls) = fold_left wstep (reaching ls) w.
  Proof. intros. unfold grun. rewrite grun_w_gen. reflexivity. Qed.

  (** under the two assumptions the writes that reach it are exactly the script's *)
  Lemma reaching_clean : forall ls sv, no_sys_write ls -> no_swap ls -> reaching_go ls Patched sv = script_writes ls.
  Proof.
    unfold no_sys_write, no_swap.
    induction ls as [|l ls IH]; intros sv H1 H2; simpl in *; auto.
    destruct l; simpl in *; try discriminate; try (apply IH; assumption).
    rewrite IH by assumption. reflexivity.
  Qed.

  Lemma grun_w : forall w ls, no_sys_write ls -> no_swap ls ->
    g_w (grun w ls) = fold_left wstep (script_writes ls) w.
  Proof. intros. rewrite grun_w_reaching. unfold reaching. rewrite reaching_clean by assumption. reflexivity. Qed.

  Lemma script_writes_erase : forall ls, script_writes (erase_dbg ls) = script_writes ls.
  Proof. induction ls as [|[] ls IH]; simpl; auto. rewrite IH; reflexivity. Qed.

  Lemma erase_clean : forall ls, no_sys_write (erase_dbg ls) /\ no_swap (erase_dbg ls).
  Proof.
    unfold no_sys_write, no_swap. induction ls as [|[] ls [IH1 IH2]]; simpl; auto.
  Qed.

  (** NON-INTERFERENCE: erasing every label of the debugger leaves the world unchanged *)
  Lemma grun_noninterference : forall w ls, no_sys_write ls -> no_swap ls ->
    g_w (grun w (erase_dbg ls)) = g_w (grun w ls).
  Proof.
    intros w ls H1 H2. destruct (erase_clean ls) as [E1 E2].
    rewrite !grun_w by assumption. rewrite script_writes_erase. reflexivity.
  Qed.

  (** while nothing swaps sys.stdout it stays the patched object *)
  Lemma grun_sys_patched : forall w ls, no_swap ls -> g_sw (grun w ls) = (Patched, fun _ => Patched).
  Proof.
    intros w ls. unfold no_swap, grun.
    assert (G : forall st, g_sw st = (Patched, fun _ => Patched) ->
                forallb (fun l => match l with LSwapOn _ | LSwapOff _ => false | _ => true end) ls = true ->
                g_sw (fold_left dstep ls st) = (Patched, fun _ => Patched)).
    { induction ls as [|l ls IH]; intros st E H; simpl in *; auto.
      apply andb_prop in H. destruct H as [Hl H]. apply IH; auto.
      rewrite dstep_sw. destruct l; try discriminate; exact E. }
    intro H. apply G; auto.
  Qed.

  (** ---- the prompt text.  History functions (of the label list alone): what the debugger of
      trace n has written since its last ACCEPTED readline, the texts handed to the prompt
      function for n, the commands returned to n *)
  Definition dbg_hstep (n : Z) (acc : list text * text * list text) (l : dlabel) : list text * text * list text :=
    let '(ps, pend, cs) := acc in
    match l with
    | LDbgWrite m s => if Z.eqb m n then (ps, pend ++ s, cs) else acc
    | LDbgReadline m c =>
        if Z.eqb m n then (if accepts (VText prompt) pend then (ps ++ [pend], [], cs ++ [c]) else acc) else acc
    | _ => acc
    end.
  Definition dbg_hist (n : Z) (ls : list dlabel) := fold_left (dbg_hstep n) ls ([], [], []).
  Definition prompts_hist (n : Z) (ls : list dlabel) : list text := fst (fst (dbg_hist n ls)).
  Definition pending (n : Z) (ls : list dlabel) : text := snd (fst (dbg_hist n ls)).
  Definition cmds_hist (n : Z) (ls : list dlabel) : list text := snd (dbg_hist n ls).

  Definition for_trace (n : Z) (l : list (Z * text)) : list text :=
    map snd (filter (fun p => Z.eqb (fst p) n) l).

  Lemma for_trace_snoc : forall n l m t,
    for_trace n (l ++ [(m, t)]) = if Z.eqb m n then for_trace n l ++ [t] else for_trace n l.
  Proof.
    intros. unfold for_trace. rewrite filter_app, map_app. simpl.
    destruct (Z.eqb m n); simpl; auto using app_nil_r.
  Qed.

  Lemma dbg_hist_snoc : forall n ls l, dbg_hist n (ls ++ [l]) = dbg_hstep n (dbg_hist n ls) l.
  Proof. intros. unfold dbg_hist. rewrite fold_left_app. reflexivity. Qed.

  Lemma grun_snoc : forall w ls l, grun w (ls ++ [l]) = dstep (grun w ls) l.
  Proof. intros. unfold grun. rewrite fold_left_app. reflexivity. Qed.

  Definition good (x0 : string) (st : gstate) (ls : list dlabel) : Prop :=
    forall n,
      g_objs st (Some n) x0 = mkS (VText prompt) VPromptFn (VText (pending n ls)) /\
      for_trace n (g_prompts st) = prompts_hist n ls /\
      for_trace n (g_cmds st) = cmds_hist n ls.

  Lemma key_some_eqb : forall n m, key_eqb (Some n) (Some m) = Z.eqb m n.
  Proof. intros. simpl. apply Z.eqb_sym. Qed.

  Lemma grun_good : forall x0,
    pdb_streams prompt = Some (SelfStdio x0, SelfStdio x0) ->
    obj_of_stream prompt (SelfStdio x0) = Some (mkS (VText prompt) VPromptFn (VText [])) ->
    forall w ls, no_swap ls -> good x0 (grun w ls) ls.
  Proof.
    intros x0 HS HO w ls. induction ls as [|l ls IH] using rev_ind; intro NS.
    - intro n. unfold grun. cbn [fold_left]. unfold ginit. cbn [g_objs g_prompts g_cmds]. unfold init_obj.
      rewrite HO. repeat split; reflexivity.
    - unfold no_swap in NS. rewrite forallb_app in NS. apply andb_prop in NS. destruct NS as [NS NL].
      specialize (IH NS).
      assert (SY : g_sys (grun w ls) = Patched) by exact (f_equal fst (grun_sys_patched w ls NS)).
      intro n. rewrite grun_snoc.
      unfold prompts_hist, pending, cmds_hist. rewrite dbg_hist_snoc.
      destruct (IH n) as (On & Pn & Cn).
      unfold prompts_hist, pending, cmds_hist in *.
      destruct (dbg_hist n ls) as [[ps pend] cs] eqn:Hn. simpl in On, Pn, Cn.
      destruct l as [a s|m s|m|m c|m s|m|m]; unfold dstep; try discriminate NL.
      5: { (* the debugger writes to the patched sys.stdout: nothing of the stream objects changes *)
           unfold cur_sys_write. rewrite SY. simpl. repeat split; auto. }
      + (* the script writes: nothing of the debugger's changes *)
        unfold cur_sys_write. rewrite SY. simpl. repeat split; auto.
      + unfold dbg_write, pdb_stdout; rewrite HS. simpl to_stream. unfold on_obj.
        destruct (IH m) as (Om & _). rewrite Om, write_spec. simpl.
        rewrite (Z.eqb_sym n m), String.eqb_refl, andb_true_r.
        destruct (Z.eqb_spec m n) as [->|Hmn].
        * unfold pending in *. rewrite Hn. simpl. repeat split; auto.
        * repeat split; auto.
      + unfold pdb_stdout; rewrite HS. simpl to_stream. unfold on_obj.
        destruct (IH m) as (Om & _). rewrite flush_spec. simpl.
        rewrite (Z.eqb_sym n m), String.eqb_refl, andb_true_r.
        destruct (Z.eqb_spec m n) as [->|Hmn]; repeat split; auto.
      + unfold pdb_stdin; rewrite HS. simpl to_stream. unfold on_obj.
        destruct (IH m) as (Om & _). rewrite Om.
        assert (Ep : pending n ls = pend) by (unfold pending; rewrite Hn; reflexivity).
        destruct (accepts (VText prompt) (pending m ls)) eqn:A.
        * rewrite readline_spec_ok by exact A. simpl.
          rewrite !for_trace_snoc, (Z.eqb_sym n m), String.eqb_refl, andb_true_r.
          destruct (Z.eqb_spec m n) as [->|Hmn].
          -- rewrite Ep in A. rewrite A. simpl. repeat split; congruence.
          -- repeat split; auto.
        * rewrite readline_spec_refused by exact A. simpl.
          rewrite (Z.eqb_sym n m), String.eqb_refl, andb_true_r.
          destruct (Z.eqb_spec m n) as [->|Hmn].
          -- rewrite Ep in *. rewrite A. simpl. repeat split; auto.
          -- repeat split; auto.
  Qed.

  (** (3) the texts handed to the prompt function for trace n, and the commands returned to its
      Pdb, are those of the history of n's debugger ALONE; the object holds what is pending *)
  Lemma grun_prompts : forall w ls n, no_swap ls ->
    for_trace n (g_prompts (grun w ls)) = prompts_hist n ls /\
    for_trace n (g_cmds (grun w ls)) = cmds_hist n ls.
  Proof.
    intros w ls n NS. destruct (pdb_streams_own prompt) as (x0 & HS & HO).
    destruct (grun_good x0 HS HO w ls NS n) as (_ & P & C). split; assumption.
  Qed.
End TwoSink.

(** ================================================================== 7. the prompt text, in terms of the history alone *)
Lemma dbg_writes_of_app : forall n a b, dbg_writes_of n (a ++ b) = dbg_writes_of n a ++ dbg_writes_of n b.
Proof.
  induction a as [|[] a IH]; intro b; simpl; auto.
  destruct (Z.eqb n0 n); rewrite IH, ?app_assoc; reflexivity.
Qed.

(** nothing the debugger of n wrote is lost, duplicated, reordered or mixed with another trace's:
    the prompt texts handed over for n, followed by what is pending, are exactly n's writes *)
Lemma prompt_text_conserved : forall prompt n ls,
  List.concat (prompts_hist prompt n ls) ++ pending prompt n ls = dbg_writes_of n ls.
Proof.
  intros prompt n ls. unfold prompts_hist, pending.
  induction ls as [|l ls IH] using rev_ind; auto.
  rewrite dbg_hist_snoc, dbg_writes_of_app.
  destruct (dbg_hist prompt n ls) as [[ps pend] cs]. simpl in IH.
  destruct l as [a s|m s|m|m c|m s|m|m]; simpl; rewrite ?app_nil_r; auto.
  - destruct (Z.eqb m n); simpl; rewrite ?app_nil_r; auto. rewrite app_assoc, IH. reflexivity.
  - destruct (Z.eqb m n); simpl; auto.
    destruct (accepts (VText prompt) pend); simpl; auto.
    rewrite concat_app. simpl. rewrite !app_nil_r. exact IH.
Qed.

(** every text handed to the prompt function passed the prompt_end test *)
Lemma prompts_accepted : forall prompt n ls,
  Forall (fun t => accepts (VText prompt) t = true) (prompts_hist prompt n ls).
Proof.
  intros prompt n ls. unfold prompts_hist.
  induction ls as [|l ls IH] using rev_ind; [constructor|].
  rewrite dbg_hist_snoc. destruct (dbg_hist prompt n ls) as [[ps pend] cs]. simpl in IH.
  destruct l as [a s|m s|m|m c|m s|m|m]; simpl; auto.
  - destruct (Z.eqb m n); auto.
  - destruct (Z.eqb m n); auto. destruct (accepts (VText prompt) pend) eqn:A; auto.
    simpl. apply Forall_app. split; auto.
Qed.

(** what the debugger of n wrote since its last readline; its writes cut at its readlines *)
Definition sstep (n : Z) (acc : text) (l : dlabel) : text :=
  match l with
  | LDbgWrite m s => if Z.eqb m n then acc ++ s else acc
  | LDbgReadline m _ => if Z.eqb m n then [] else acc
  | _ => acc
  end.
Definition since (n : Z) (ls : list dlabel) : text := fold_left (sstep n) ls [].

Fixpoint segs_go (n : Z) (ls : list dlabel) (acc : text) : list text :=
  match ls with
  | [] => []
  | LDbgReadline m _ :: r => if Z.eqb m n then acc :: segs_go n r [] else segs_go n r acc
  | l :: r => segs_go n r (sstep n acc l)
  end.
Definition segments (n : Z) (ls : list dlabel) : list text := segs_go n ls [].

(** Pdb's behaviour (cmd.Cmd.cmdloop writes self.prompt immediately before it reads): whenever the
    debugger of n reads, what it wrote since its last read ends with the prompt *)
Fixpoint pdb_like_go (prompt : text) (n : Z) (ls : list dlabel) (acc : text) : bool :=
  match ls with
  | [] => true
  | LDbgReadline m _ :: r =>
      if Z.eqb m n then accepts (VText prompt) acc && pdb_like_go prompt n r [] else pdb_like_go prompt n r acc
  | l :: r => pdb_like_go prompt n r (sstep n acc l)
  end.
Definition pdb_like (prompt : text) (n : Z) (ls : list dlabel) : bool := pdb_like_go prompt n ls [].

Lemma hist_pdb_like_gen : forall prompt n ls ps pend cs,
  pdb_like_go prompt n ls pend = true ->
  fst (fold_left (dbg_hstep prompt n) ls (ps, pend, cs)) = (ps ++ segs_go n ls pend, fold_left (sstep n) ls pend).
Proof.
  induction ls as [|l ls IH]; intros ps pend cs H; simpl in *.
  - rewrite app_nil_r. reflexivity.
  - destruct l as [a s|m s|m|m c|m s|m|m]; simpl in *; auto.
    + destruct (Z.eqb m n); auto.
    + destruct (Z.eqb m n); auto.
      apply andb_prop in H. destruct H as [A H]. rewrite A.
      rewrite IH by exact H. rewrite <- app_assoc. reflexivity.
Qed.

(** under that behaviour the texts handed to the prompt function for n are exactly n's writes cut
    at n's readlines: each prompt text is what n's debugger wrote since its last readline *)
Lemma prompts_since_last_readline : forall prompt n ls,
  pdb_like prompt n ls = true ->
  prompts_hist prompt n ls = segments n ls /\ pending prompt n ls = since n ls.
Proof.
  intros prompt n ls H. unfold prompts_hist, pending, dbg_hist, segments, since.
  rewrite (hist_pdb_like_gen prompt n ls [] [] [] H). split; reflexivity.
Qed.

(** ================================================================== 8. the run with nextline's own callback *)
Definition drun (prompt : text) (ls : list dlabel) : gstate (buf * world) :=
  grun (buf * world) the_callback org_write prompt init ls.

Definition d_events (prompt : text) (ls : list dlabel) : list (pykey * text) := w_events (snd (g_w _ (drun prompt ls))).
Definition d_real (prompt : text) (ls : list dlabel) : list text := w_real (snd (g_w _ (drun prompt ls))).
Definition d_prompts (prompt : text) (n : Z) (ls : list dlabel) : list text := for_trace n (g_prompts _ (drun prompt ls)).
Definition d_cmds (prompt : text) (n : Z) (ls : list dlabel) : list text := for_trace n (g_cmds _ (drun prompt ls)).

Lemma model_fold : forall ws st,
  fold_left (wstep (buf * world) the_callback org_write) ws st = fold_left step ws st.
Proof.
  induction ws as [|[a s] ws IH]; intro st; simpl; auto.
Qed.

(** EXACT, with no assumption on what the debugger does: the capture state after ANY interleaving is that of
    Stdout/Model.v run on the writes that reach the patched sys.stdout ([reaching]: script writes made while
    sys.stdout is not swapped, AND the debugger's own writes to sys.stdout) *)
Lemma drun_is_model_reaching : forall prompt ls, g_w _ (drun prompt ls) = run (reaching ls).
Proof. intros. unfold drun. rewrite grun_w_reaching, model_fold. reflexivity. Qed.

(** when the debugger writes only to the stdout it was constructed with and never swaps sys.stdout, those are the
    script's writes *)
Lemma drun_is_model : forall prompt ls, no_sys_write ls -> no_swap ls -> g_w _ (drun prompt ls) = run (script_writes ls).
Proof. intros. unfold drun. rewrite grun_w by assumption. rewrite model_fold. reflexivity. Qed.

(** (1) *)
Lemma debugger_text_never_reported : forall prompt ls, no_sys_write ls -> no_swap ls ->
  d_events prompt ls = d_events prompt (erase_dbg ls) /\ d_events prompt ls = events (script_writes ls).
Proof.
  intros prompt ls H1 H2. destruct (erase_clean ls) as [E1 E2]. unfold d_events.
  rewrite !drun_is_model by assumption. rewrite script_writes_erase. split; reflexivity.
Qed.

Lemma reported_is_script_text : forall prompt ls n, no_sys_write ls -> no_swap ls -> n <> 0 ->
  reported_of (Some n) (d_events prompt ls) = upto_last_nl (writes_of (Some n) (script_writes ls)).
Proof.
  intros prompt ls n H1 H2 Hn. destruct (debugger_text_never_reported prompt ls H1 H2) as (_ & E). rewrite E.
  apply model_upto; exact Hn.
Qed.

(** (2) *)
Lemma real_stdout_gets_everything : forall prompt ls, no_sys_write ls -> no_swap ls ->
  d_real prompt ls = map text_of (script_writes ls) /\ d_real prompt ls = real (script_writes ls).
Proof.
  intros. unfold d_real. rewrite drun_is_model by assumption. fold (real (script_writes ls)). split; [apply real_all|reflexivity].
Qed.

(** without the assumptions: what is reported and what the real stdout receives *)
Lemma reported_and_real_exact : forall prompt ls,
  d_events prompt ls = events (reaching ls) /\ d_real prompt ls = map text_of (reaching ls).
Proof.
  intros. unfold d_events, d_real. rewrite drun_is_model_reaching. split; [reflexivity|].
  fold (real (reaching ls)). apply real_all.
Qed.

(** (2'), whatever the callback does with a state of its own *)
Section AnyCallback.
  Variable C : Type.
  Variable cb : pykey -> text -> C -> C.
  Definition cbk_any (a : pykey) (t : text) (w : C * list text) : C * list text := (cb a t (fst w), snd w).
  Definition org_any (t : text) (w : C * list text) : C * list text := (fst w, snd w ++ [t]).

  Lemma real_any_callback : forall prompt c0 ls, no_sys_write ls -> no_swap ls ->
    snd (g_w _ (grun (C * list text) cbk_any org_any prompt (c0, []) ls)) = map text_of (script_writes ls).
  Proof.
    intros. rewrite grun_w by assumption.
    assert (G : forall ws w, snd (fold_left (wstep _ cbk_any org_any) ws w) = snd w ++ map text_of ws).
    { induction ws as [|l ws IH]; intro w; simpl; [rewrite app_nil_r; reflexivity|].
      rewrite IH. simpl. rewrite <- app_assoc. reflexivity. }
    rewrite G. reflexivity.
  Qed.
End AnyCallback.

(** (3) *)
Lemma prompt_text_is_debugger_text : forall prompt ls n, no_swap ls ->
  d_prompts prompt n ls = prompts_hist prompt n ls /\ d_cmds prompt n ls = cmds_hist prompt n ls.
Proof. intros. unfold d_prompts, d_cmds, drun. apply grun_prompts; assumption. Qed.

Lemma prompt_text_since_last_readline : forall prompt ls n, no_swap ls ->
  pdb_like prompt n ls = true -> d_prompts prompt n ls = segments n ls.
Proof.
  intros prompt ls n NS H. destruct (prompt_text_is_debugger_text prompt ls n NS) as (E & _). rewrite E.
  apply prompts_since_last_readline; exact H.
Qed.

(** the prompts of a trace do not depend on the script's writes or on the other traces' debuggers *)
Definition dbg_only (n : Z) (l : dlabel) : bool :=
  match l with LDbgWrite m _ | LDbgFlush m | LDbgReadline m _ => Z.eqb m n | _ => false end.

Lemma dbg_hist_only : forall prompt n ls acc,
  fold_left (dbg_hstep prompt n) (filter (dbg_only n) ls) acc = fold_left (dbg_hstep prompt n) ls acc.
Proof.
  induction ls as [|l ls IH]; intro acc; simpl; auto.
  destruct acc as [[ps pend] cs].
  destruct l as [a s|m s|m|m c|m s|m|m]; simpl; try apply IH;
    destruct (Z.eqb m n) eqn:E; simpl; rewrite ?E; apply IH.
Qed.

Lemma dbg_only_no_swap : forall n ls, no_swap (filter (dbg_only n) ls).
Proof.
  unfold no_swap. induction ls as [|l ls IH]; simpl; auto.
  destruct l; simpl; auto; destruct (Z.eqb n0 n); simpl; auto.
Qed.

Lemma prompts_independent : forall prompt ls n, no_swap ls ->
  d_prompts prompt n ls = d_prompts prompt n (filter (dbg_only n) ls).
Proof.
  intros prompt ls n NS. destruct (prompt_text_is_debugger_text prompt ls n NS) as (E & _).
  destruct (prompt_text_is_debugger_text prompt (filter (dbg_only n) ls) n (dbg_only_no_swap n ls)) as (E' & _).
  rewrite E, E'. unfold prompts_hist, dbg_hist. rewrite dbg_hist_only. reflexivity.
Qed.

(** ================================================================== 8b. the assumptions are FALSE of CPython's pdb:
    witnesses (both reproduced against the unchanged /repo by harness/props/c13.py) *)

(** `help pdb`: pdb.do_help -> pydoc.pager -> sys.stdout.write(<the module documentation>): debugger text written
    under trace 1 reaches the patched write and is REPORTED as output of trace 1 (and erasing it changes the report) *)
Definition ex_help_pdb : list dlabel :=
  [LDbgWrite 1 (txt [40; 80; 100; 98; 41; 32]); LDbgReadline 1 (txt [104; 101; 108; 112; 32; 112; 100; 98]);
   LDbgSysWrite 1 (txt [10; 84; 104; 101; 32; 80; 121; 116; 104; 111; 110; 32; 68; 101; 98; 117; 103; 103; 101; 114; 10]);
   LScript (Some 1) (txt [104; 105; 10])].

Lemma refuted_help_pdb :
  no_swap ex_help_pdb /\
  d_events (txt [40; 80; 100; 98; 41; 32]) ex_help_pdb =
    [(Some 1, txt [10; 84; 104; 101; 32; 80; 121; 116; 104; 111; 110; 32; 68; 101; 98; 117; 103; 103; 101; 114; 10]);
     (Some 1, txt [104; 105; 10])] /\
  d_events (txt [40; 80; 100; 98; 41; 32]) (erase_dbg ex_help_pdb) = [(Some 1, txt [104; 105; 10])] /\
  d_events (txt [40; 80; 100; 98; 41; 32]) ex_help_pdb <> d_events (txt [40; 80; 100; 98; 41; 32]) (erase_dbg ex_help_pdb).
Proof. vm_compute. repeat split; try reflexivity. discriminate. Qed.

(** `!import time; time.sleep(0.6)` at a prompt of trace 1 while the thread of trace 2 prints: Pdb.default binds
    sys.stdout to trace 1's StdInOut process-wide; trace 2's line goes into trace 1's PROMPT TEXT and neither into
    the report nor to the real stdout *)
Definition ex_bang_statement : list dlabel :=
  [LDbgWrite 1 (txt [40; 80; 100; 98; 41; 32]); LDbgReadline 1 (txt [33; 115; 108; 101; 101; 112]);
   LSwapOn 1; LScript (Some 2) (txt [116; 105; 99; 107; 10]); LSwapOff 1;
   LDbgWrite 1 (txt [40; 80; 100; 98; 41; 32]); LDbgReadline 1 (txt [99]);
   LScript (Some 2) (txt [116; 111; 99; 107; 10])].

Lemma refuted_bang_statement :
  no_sys_write ex_bang_statement /\
  script_writes ex_bang_statement = [Write (Some 2) (txt [116; 105; 99; 107; 10]); Write (Some 2) (txt [116; 111; 99; 107; 10])] /\
  d_real (txt [40; 80; 100; 98; 41; 32]) ex_bang_statement = [txt [116; 111; 99; 107; 10]] /\
  d_events (txt [40; 80; 100; 98; 41; 32]) ex_bang_statement = [(Some 2, txt [116; 111; 99; 107; 10])] /\
  d_prompts (txt [40; 80; 100; 98; 41; 32]) 1 ex_bang_statement =
    [txt [40; 80; 100; 98; 41; 32]; txt [116; 105; 99; 107; 10; 40; 80; 100; 98; 41; 32]] /\
  d_real (txt [40; 80; 100; 98; 41; 32]) ex_bang_statement <> map text_of (script_writes ex_bang_statement).
Proof. vm_compute. repeat split; try reflexivity. discriminate. Qed.

Lemma never_reported_refuted_help_pdb :
  exists prompt ls, no_swap ls /\ d_events prompt ls <> d_events prompt (erase_dbg ls) /\
                    exists n s, In (LDbgSysWrite n s) ls /\ In (Some n, s) (d_events prompt ls).
Proof.
  exists (txt [40; 80; 100; 98; 41; 32]), ex_help_pdb.
  destruct refuted_help_pdb as (A & B & _ & D). split; [exact A|]. split; [exact D|].
  exists 1, (txt [10; 84; 104; 101; 32; 80; 121; 116; 104; 111; 110; 32; 68; 101; 98; 117; 103; 103; 101; 114; 10]).
  split; [simpl; auto|]. rewrite B. simpl; auto.
Qed.

Lemma real_stdout_refuted_bang_statement :
  exists prompt ls, no_sys_write ls /\ d_real prompt ls <> map text_of (script_writes ls) /\
                    exists a s, In (LScript (Some a) s) ls /\ ~ In s (d_real prompt ls) /\
                                ~ In (Some a, s) (d_events prompt ls).
Proof.
  exists (txt [40; 80; 100; 98; 41; 32]), ex_bang_statement.
  destruct refuted_bang_statement as (A & _ & R & E & _ & D). split; [exact A|]. split; [exact D|].
  exists 2, (txt [116; 105; 99; 107; 10]). split; [simpl; auto 10|]. rewrite R, E. split; simpl; intros [H|[]]; discriminate H.
Qed.

(** ================================================================== 9. non-vacuity *)
Definition P_PDB : text := txt [40; 80; 100; 98; 41; 32].          (* "(Pdb) " *)

(** trace 1 prints 'a' ; its debugger prints a location and the prompt; trace 2 prints 'x\n'; the
    debugger of 2 prints; 1 reads 'next'; the script finishes its line 'b\n'; debugger 1 prints
    command output, the prompt, reads; debugger 2 prompts and reads *)
Definition ex_dbg : list dlabel :=
  [LScript (Some 1) (txt [97]);
   LDbgWrite 1 (txt [62; 32; 102; 40; 49; 41; 10]); LDbgWrite 1 P_PDB; LDbgFlush 1;
   LScript (Some 2) (txt [120; 10]);
   LDbgWrite 2 (txt [62; 32; 103; 10]);
   LDbgReadline 1 (txt [110]);
   LScript (Some 1) (txt [98; 10]);
   LDbgWrite 1 (txt [52; 50; 10]); LDbgWrite 1 P_PDB; LDbgReadline 1 (txt [99]);
   LDbgWrite 2 P_PDB; LDbgReadline 2 (txt [115])].

Lemma ex_dbg_runs :
  d_events P_PDB ex_dbg = [(Some 2, txt [120; 10]); (Some 1, txt [97; 98; 10])] /\
  d_real P_PDB ex_dbg = [txt [97]; txt [120; 10]; txt [98; 10]] /\
  d_prompts P_PDB 1 ex_dbg = [txt [62; 32; 102; 40; 49; 41; 10; 40; 80; 100; 98; 41; 32]; txt [52; 50; 10; 40; 80; 100; 98; 41; 32]] /\
  d_prompts P_PDB 2 ex_dbg = [txt [62; 32; 103; 10; 40; 80; 100; 98; 41; 32]] /\
  d_cmds P_PDB 1 ex_dbg = [txt [110]; txt [99]] /\
  pdb_like P_PDB 1 ex_dbg = true /\ pdb_like P_PDB 2 ex_dbg = true /\
  d_events P_PDB (erase_dbg ex_dbg) = d_events P_PDB ex_dbg.
Proof. vm_compute. repeat split; reflexivity. Qed.

(** ---- CustomizedPdb defines only __init__/_cmdloop/cmdloop/set_continue (the translator refuses any other member:
    an override of do_* / message / default could print anywhere), and the calls these make are Pdb's own entry
    points, the cmdloop hook and logging -- none of them writes *)
Definition harmless_callee (c : string) : bool :=
  existsb (String.eqb c)
    ["super.__init__"; "super.cmdloop"; "self.cmdloop"; "self._cmdloop_hook"; "self._set_stopinfo"; "getLogger"; "logger"]%string.

Lemma pdb_overrides_harmless :
  forallb (fun m => existsb (String.eqb (fst m)) ["__init__"; "_cmdloop"; "cmdloop"; "set_continue"]%string
                    && forallb harmless_callee (snd m)) pdb_override_calls = true.
Proof. vm_compute. reflexivity. Qed.

(** ---- (stated last, so that a more specific obligation above fails first) *)
(** the stream that is wrapped is sys.stdout, with the caller's callback; nothing else in the child's
    code mentions print / sys.stdout / sys.__stdout__ *)
Lemma peek_target_spec :
  peek_stdout_target = SysStdout /\ peek_stdout_passes_callback = true /\ other_stdout_uses = [].
Proof. repeat split; reflexivity. Qed.

(** ================================================================== 10. helpers for the generated case files
    (harness/props/c13.py drives the REAL Factory / CustomizedPdb / StdInOut / peek_stdout_by_key with the
    same interleavings and compares) *)
Definition DS (a : pykey) (l : list Z) : dlabel := LScript a (txt l).
Definition DW (n : Z) (l : list Z) : dlabel := LDbgWrite n (txt l).
Definition DF (n : Z) : dlabel := LDbgFlush n.
Definition DR (n : Z) (l : list Z) : dlabel := LDbgReadline n (txt l).
Definition DSW (n : Z) (l : list Z) : dlabel := LDbgSysWrite n (txt l).
Definition DON (n : Z) : dlabel := LSwapOn n.
Definition DOFF (n : Z) : dlabel := LSwapOff n.

Definition keyed (l : list (Z * text)) : calls := map (fun p => (Some (fst p), snd p)) l.

(** events, real stdout (concatenated), prompt-function calls, commands returned *)
Definition two_run (ls : list dlabel) : (calls * list text) * (calls * calls) :=
  let st := drun P_PDB ls in
  ((w_events (snd (g_w _ st)), [List.concat (w_real (snd (g_w _ st)))]),
   (keyed (g_prompts _ st), keyed (g_cmds _ st))).

Definition two_eqb (a b : (calls * list text) * (calls * calls)) : bool :=
  obs_eqb (fst a) (fst b) && calls_eqb (fst (snd a)) (fst (snd b)) && calls_eqb (snd (snd a)) (snd (snd b)).
