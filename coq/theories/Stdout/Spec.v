(** What the property talks about, as functions of the HISTORY (the list of
    writes) and of the observed events only -- independent of the model's
    state.  Definitions only. *)
From NL Require Export Stdout.Model.
Open Scope Z_scope.

(** everything `k` wrote, concatenated in order *)
Fixpoint writes_of (k : pykey) (ws : list label) : text :=
  match ws with
  | [] => []
  | Write a s :: r => if key_eqb a k then s ++ writes_of k r else writes_of k r
  end.

(** the pieces reported for `k`, in order; and their concatenation *)
Fixpoint pieces_of (k : pykey) (evs : list (pykey * text)) : list text :=
  match evs with
  | [] => []
  | (a, s) :: r => if key_eqb a k then s :: pieces_of k r else pieces_of k r
  end.

Definition reported_of (k : pykey) (evs : list (pykey * text)) : text := concat (pieces_of k evs).

Fixpoint has_nl (t : text) : bool :=
  match t with
  | [] => false
  | NL :: _ => true
  | _ :: r => has_nl r
  end.

Definition ends_nl (t : text) : bool := str_endswith t [NL].

(** "up to the last newline": the longest prefix of t that ends in NL
    ([] when t contains no NL) *)
Fixpoint upto_last_nl (t : text) : text :=
  match t with
  | [] => []
  | c :: r =>
      match upto_last_nl r with
      | [] => match c with NL => [NL] | Other _ => [] end
      | p => c :: p
      end
  end.

(** a trace number: an int other than 0 (TraceNoCounter starts at 1) *)
Definition traced (k : pykey) : Prop := exists n, k = Some n /\ n <> 0.

(** the writes of `k` alone (any interleaving with other writers removed) *)
Definition only (k : pykey) (ws : list label) : list label :=
  filter (fun l => key_eqb (actor_of l) k) ws.

(** what follows the longest prefix ending in NL *)
Definition after_last_nl (t : text) : text := skipn (length (upto_last_nl t)) t.

(** the pieces completed so far for `k` and what `k` has written after the
    last reported newline -- by one pass over the history: a write that
    contains NL completes a piece that goes up to the last NL written *)
Definition hstep (k : pykey) (acc : list text * text) (l : label) : list text * text :=
  match l with
  | Write a s =>
      if key_eqb a k then
        let t := snd acc ++ s in
        if has_nl s then (fst acc ++ [upto_last_nl t], after_last_nl t) else (fst acc, t)
      else acc
  end.

Definition hist (k : pykey) (ws : list label) : list text * text := fold_left (hstep k) ws ([], []).
Definition pieces_hist (k : pykey) (ws : list label) : list text := fst (hist k ws).
Definition unflushed (k : pykey) (ws : list label) : text := snd (hist k ws).
