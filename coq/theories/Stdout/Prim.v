(** Vocabulary used by the GENERATED transcription Gen/PeekFuns.v of
    nextline/spawned/plugin/plugins/peek.py (ReadLinesByKey, AssignKey).
    Each definition gives the meaning of one Python construct the translator
    (translate/purefuns_peek.py) recognises.  Definitions only.

    text  = Python `str`       : list of characters, `NL` is '\n',
                                 `Other n` any other code point n
    pykey = Python value used as buffer key / trace number:
                                 `None` or an `int` (`Some n`)
    buf   = `defaultdict(str)` : association list key -> text, most recently
                                 inserted binding first, at most one binding
                                 per key (maintained by dd_set / dd_pop) *)
From Coq Require Export List ZArith Bool Arith.
Export ListNotations.
Open Scope Z_scope.

Inductive ch := NL | Other (n : Z).
Notation text := (list ch).

Definition ch_eqb (a b : ch) : bool :=
  match a, b with
  | NL, NL => true
  | Other x, Other y => Z.eqb x y
  | _, _ => false
  end.

Fixpoint text_eqb (a b : text) : bool :=
  match a, b with
  | [], [] => true
  | x :: a', y :: b' => ch_eqb x y && text_eqb a' b'
  | _, _ => false
  end.

Notation pykey := (option Z).

Definition key_eqb (a b : pykey) : bool :=
  match a, b with
  | None, None => true
  | Some x, Some y => Z.eqb x y
  | _, _ => false
  end.

(** `if x:` for x : None | int *)
Definition truthy_key (k : pykey) : bool :=
  match k with
  | None => false
  | Some n => negb (Z.eqb n 0)
  end.

(** `x is None` *)
Definition is_none (k : pykey) : bool :=
  match k with None => true | Some _ => false end.

(** `if s:` for s : str *)
Definition truthy_text (s : text) : bool :=
  match s with [] => false | _ => true end.

(** `a + b` on str *)
Definition str_add (a b : text) : text := a ++ b.

(** `s.startswith(p)` *)
Fixpoint str_startswith (s p : text) {struct p} : bool :=
  match p, s with
  | [], _ => true
  | _ :: _, [] => false
  | c :: p', d :: s' => ch_eqb c d && str_startswith s' p'
  end.

(** `s.endswith(p)`  (rev_append _ [] is List.rev in linear time) *)
Definition str_endswith (s p : text) : bool := str_startswith (rev_append s []) (rev_append p []).

(** `p in s` (substring test) *)
Fixpoint str_contains (p s : text) : bool :=
  str_startswith s p ||
  match s with
  | [] => false
  | _ :: s' => str_contains p s'
  end.

(** `s.rindex(p)`: index of the last occurrence of p in s.  (Python raises
    ValueError when there is none; here -1.  The correspondence run treats an
    exception of the real code as a disagreement with the model.) *)
Fixpoint rindex_go (s p : text) (i best : Z) : Z :=
  let best' := if str_startswith s p then i else best in
  match s with
  | [] => best'
  | _ :: r => rindex_go r p (i + 1) best'
  end.

Definition str_rindex (s p : text) : Z := rindex_go s p 0 (-1).

(** a slice bound i on a sequence of length len: negative counts from the
    end, everything is clamped to 0..len *)
Definition py_index (len i : Z) : nat :=
  Z.to_nat (if i <? 0 then Z.max 0 (len + i) else Z.min i len).

(** `s[lo:hi]` (either bound may be absent, no step) *)
Definition str_slice (s : text) (lo hi : option Z) : text :=
  let len := Z.of_nat (length s) in
  let l := match lo with None => 0%nat | Some i => py_index len i end in
  let h := match hi with None => length s | Some i => py_index len i end in
  firstn (h - l) (skipn l s).

Notation buf := (list (pykey * text)).

(** `buffer[k]` on a defaultdict(str), read access inside `buffer[k] += ...`:
    a missing key reads as ''. *)
Fixpoint dd_get (b : buf) (k : pykey) : text :=
  match b with
  | [] => []
  | (k', v) :: r => if key_eqb k' k then v else dd_get r k
  end.

Fixpoint dd_remove (b : buf) (k : pykey) : buf :=
  match b with
  | [] => []
  | (k', v) :: r => if key_eqb k' k then dd_remove r k else (k', v) :: dd_remove r k
  end.

(** `buffer[k] = v` *)
Definition dd_set (b : buf) (k : pykey) (v : text) : buf := (k, v) :: dd_remove b k.

(** `k in buffer` *)
Fixpoint dd_mem (b : buf) (k : pykey) : bool :=
  match b with
  | [] => false
  | (k', _) :: r => key_eqb k' k || dd_mem r k
  end.

(** `buffer.pop(k)`: value and remaining dictionary.  (Python raises KeyError
    when k is absent; the transcribed code only pops a key it has just
    written.  The correspondence run treats an exception of the real code as
    a disagreement with the model.) *)
Definition dd_pop (b : buf) (k : pykey) : text * buf := (dd_get b k, dd_remove b k).
