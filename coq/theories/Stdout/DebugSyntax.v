(** Abstract syntax of the fragments of /repo that keep the DEBUGGER's text apart from the
    SCRIPT's standard output (C13, last sentence).  Hand-written; the TERMS of these types are
    regenerated from the source at every check by translate/debugger_stream.py into
    Gen/DebuggerStream.v, and Stdout/DebugTie.v interprets them.

    Sources:
      nextline/spawned/plugin/plugins/pdb_/stream.py   StdInOut.__init__ / write / flush / readline
      nextline/spawned/plugin/plugins/pdb_/factory.py  Factory, Factory._factory (how each Pdb is built)
      nextline/spawned/plugin/plugins/pdb_/custom.py   CustomizedPdb.__init__ (what it hands to Pdb.__init__)
      nextline/utils/peek.py                           peek_textio (and its inner `write`), peek_stdout
      nextline/spawned/plugin/plugins/peek.py          peek_stdout_by_key (which closures are composed)
      nextline/spawned/plugin/plugins/repeat.py        Repeater.on_write_stdout (the OnWriteStdout event)

    Statements these fragments do not depend on (logging, docstrings, typing, pure assignments to
    locals nothing reads) have no constructor: the translator drops them. *)
From Coq Require Import List String ZArith.
From NL Require Import Stdout.Prim.
Import ListNotations.

(** ---- a small imperative language: the bodies of StdInOut's methods and of the wrapper that
    peek_textio installs as `textio.write` *)
Inductive expr :=
| EVar (x : string)                       (* a parameter or a local variable *)
| EAttr (a : string)                      (* self.<a> *)
| EStr (t : text)                         (* a string literal *)
| ENone                                   (* None *)
| EOpaque                                 (* an expression WITHOUT calls whose value the translator does not
                                             follow (an f-string for a log message, ...): some unknown value *)
| EAdd (a b : expr)                       (* a + b *)
| ELen (a : expr)                         (* len(a) *)
| ECallAttr (a : string) (arg : expr)     (* self.<a>(arg) / self.<a>(text=arg): the callable stored in an attribute *)
| ECallVar (f : string) (arg : expr)      (* f(arg), f a variable of the enclosing function; the translator
                                             renames the two it knows to "callback" (the parameter of
                                             peek_textio) and "org_write" (the local bound to textio.write) *)
| ESysWrite (arg : expr).                 (* sys.stdout.write(arg) *)

Inductive cond :=
| CTruthy (e : expr)                      (* if <e>: *)
| CNot (c : cond)                         (* not <c> *)
| CEndswith (a b : expr).                 (* a.endswith(b) *)

Inductive stmt :=
| SSkip                                   (* pass / nothing tracked *)
| SSeq (a b : stmt)
| SSetAttr (a : string) (e : expr)        (* self.<a> = e *)
| SAugAttr (a : string) (e : expr)        (* self.<a> += e *)
| SSetVar (x : string) (e : expr)         (* x = e *)
| SExpr (e : expr)                        (* an expression statement (a call) *)
| SReturn (e : expr)                      (* return e *)
| SIf (c : cond) (a b : stmt)
| SAssert (c : cond).                     (* assert c   (also: try: assert c  except AssertionError: <log>; raise) *)

(** a function: parameter names in order (without self), defaults of the trailing parameters, body *)
Record method := mkM { m_params : list string; m_defaults : list (string * expr); m_body : stmt }.

(** ---- streams, as the terms that appear in argument positions *)
Inductive stream :=
| SelfStdio (x : string)      (* the StdInOut object bound to the local x of THIS call of _factory: one per Pdb *)
| SharedStdio (x : string)    (* a StdInOut object bound to a variable of the enclosing Factory: one for ALL Pdbs *)
| SysStdout                   (* sys.stdout *)
| SysStdin                    (* sys.stdin *)
| PdbDefault                  (* argument not given: cmd.Cmd falls back to sys.stdin / sys.stdout *)
| OtherStream (name : string) (* anything else that was recognised as a stream expression (sys.stderr, ...) *)
| Unresolved.                 (* a name that is not bound to a stream *)

(** a stream expression in an argument position *)
Inductive sexp :=
| XName (x : string)          (* a variable / a parameter *)
| XSysStdout
| XSysStdin
| XOther (name : string)
| XAbsent.                    (* the argument is not passed *)

(** an argument of StdInOut(...) / the right-hand side of `x.attr = ...` in _factory *)
Inductive farg :=
| FAPromptFunc                (* the variable bound to PromptFunc(hook=hook) in Factory *)
| FANone
| FAStr (t : text)
| FAPdbPrompt (p : string).   (* <p>.prompt, p the Pdb object *)

(** the statements of Factory (outside `def _factory`) and of _factory that build objects *)
Inductive fstmt :=
| FNewStdio (x : string) (pos : list farg) (kw : list (string * farg))   (* x = StdInOut(<pos>, <kw>) *)
| FNewPdb (p : string) (args : list (string * sexp))                     (* p = CustomizedPdb(...): its stream arguments
                                                                            by PARAMETER name of CustomizedPdb.__init__ *)
| FSetAttr (x a : string) (v : farg)                                     (* x.<a> = v *)
| FReturnDispatch (p : string).                                          (* return p.trace_dispatch *)

(** ---- peek_textio as a context manager *)
Inductive pstmt :=
| PSaveOrg                    (* org_write = textio.write *)
| PInstall                    (* textio.write = write   (the inner function) *)
| PRestore                    (* textio.write = org_write *)
| PYield                      (* yield *)
| PTryFinally (body fin : list pstmt).

(** ---- peek_stdout_by_key: which closures are composed around the user's callback *)
Inductive kcb :=
| KUser                       (* the parameter `callback` itself *)
| KLinesUser.                 (* ReadLinesByKey(callback) *)
Inductive ucb :=
| UAssignKey (c : kcb).       (* AssignKey(key_factory=key_factory, callback=<c>) *)

(** ---- Repeater.on_write_stdout: what goes into the OnWriteStdout event *)
Inductive kexp :=
| KParam                      (* the parameter trace_no *)
| KCurrent.                   (* self._hook.hook.current_trace_no() *)
Record evspec := mkEv {
  ev_trace_no : kexp;         (* the value of OnWriteStdout(trace_no=...) *)
  ev_text_is_line : bool;     (* OnWriteStdout(text=line): the parameter, unchanged *)
  ev_puts : nat               (* how many times self._queue_out.put(event) is executed *)
}.
