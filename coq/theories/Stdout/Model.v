(** Executable model of stdout capture in the spawned child.  Definitions only.

    The three closures that do the work are NOT written here: they are the
    generated transcriptions in Gen/PeekFuns.v
      read_lines_by_key  <- peek.py: ReadLinesByKey
      assign_key         <- peek.py: AssignKey
      peek_write         <- utils/peek.py: peek_textio.write
    This file only wires them together the way peek_stdout_by_key / PeekStdout /
    Repeater do (the shape of that wiring is pinned by the translator).

    A run = a list of labels [Write actor s]: one call of sys.stdout.write(s)
    made while current_trace_no() = actor (Some n: the thread/task with trace
    number n; None: code without a trace number).  Every interleaving of the
    writers and every splitting of the text into partial writes is some list
    of labels, so "for every schedule" = "for every list of labels". *)
From NL Require Export Stdout.Prim Gen.PeekFuns.
Open Scope Z_scope.

Inductive label := Write (actor : pykey) (s : text).

Definition actor_of (l : label) : pykey := match l with Write a _ => a end.
Definition text_of (l : label) : text := match l with Write _ s => s end.

(** what is observable outside the closures *)
Record world := mkWorld {
  w_events : list (pykey * text);   (* OnWriteStdout(trace_no, text) put on queue_out, in order *)
  w_real : list text                (* arguments of the original sys.stdout.write, in order *)
}.

(** repeat.py: Repeater.on_write_stdout(trace_no, line) -- reached from
    PeekStdout._callback.  NB the parameter trace_no is overwritten by
    current_trace_no() before the event is built. *)
Definition on_write_stdout (current_trace_no : unit -> pykey) (trace_no : pykey) (line : text)
    (w : world) : world :=
  let trace_no := current_trace_no tt in
  mkWorld (w_events w ++ [(trace_no, line)]) (w_real w).

(** the original textio.write (the real stdout) *)
Definition org_write (s : text) (st : buf * world) : buf * world :=
  (fst st, mkWorld (w_events (snd st)) (w_real (snd st) ++ [s])).

(** one call of the patched sys.stdout.write:
    peek_stdout_by_key(key_factory=current_trace_no, callback=on_write_stdout):
      callback_  = ReadLinesByKey(callback)
      assign_key = AssignKey(key_factory, callback_)
      peek_stdout(assign_key) -> peek_textio(sys.stdout, assign_key) -> write *)
Definition step (st : buf * world) (l : label) : buf * world :=
  match l with
  | Write actor s =>
      let current_trace_no := fun _ : unit => actor in
      let callback_ := read_lines_by_key (on_write_stdout current_trace_no) in
      let assign_key_ := assign_key current_trace_no callback_ in
      peek_write assign_key_ org_write s st
  end.

Definition init : buf * world := ([], mkWorld [] []).

Definition run (ws : list label) : buf * world := fold_left step ws init.

Definition events (ws : list label) : list (pykey * text) := w_events (snd (run ws)).
Definition real (ws : list label) : list text := w_real (snd (run ws)).
Definition buffer_of (ws : list label) : buf := fst (run ws).

(** ---- the same closures driven in isolation (used by the correspondence
    run, which calls the real closures with a recording callback) *)

Notation calls := (list (pykey * text)).

Definition record (k : pykey) (line : text) (c : calls) : calls := c ++ [(k, line)].

(** ReadLinesByKey(record) called with a sequence of (key, s) *)
Definition rlbk_run (cs : calls) : calls :=
  snd (fold_left (fun st c => read_lines_by_key record (fst c) (snd c) st) cs ([], [])).

(** AssignKey(key_factory, record) called once per label *)
Definition ak_run (ws : list label) : calls :=
  fold_left (fun c l => assign_key (fun _ => actor_of l) record (text_of l) c) ws [].

(** peek_stdout_by_key(key_factory, record) around a recording stdout *)
Definition plain_step (st : buf * (calls * list text)) (l : label) : buf * (calls * list text) :=
  let rec_ := fun k line (w : calls * list text) => (record k line (fst w), snd w) in
  let org := fun s (st : buf * (calls * list text)) => (fst st, (fst (snd st), snd (snd st) ++ [s])) in
  peek_write (assign_key (fun _ => actor_of l) (read_lines_by_key rec_)) org (text_of l) st.

Definition plain_run (ws : list label) : calls * list text :=
  snd (fold_left plain_step ws ([], ([], []))).

(** ---- helpers for the generated case files *)

(** code points as written by the harness: 10 is '\n' *)
Definition chz (z : Z) : ch := if Z.eqb z 10 then NL else Other z.
Definition txt (l : list Z) : text := map chz l.
Definition Wr (a : pykey) (l : list Z) : label := Write a (txt l).

Fixpoint calls_eqb (a b : calls) : bool :=
  match a, b with
  | [], [] => true
  | (k, s) :: a', (k', s') :: b' => key_eqb k k' && text_eqb s s' && calls_eqb a' b'
  | _, _ => false
  end.

Fixpoint texts_eqb (a b : list text) : bool :=
  match a, b with
  | [], [] => true
  | s :: a', s' :: b' => text_eqb s s' && texts_eqb a' b'
  | _, _ => false
  end.

Definition obs_eqb (a b : calls * list text) : bool :=
  calls_eqb (fst a) (fst b) && texts_eqb (snd a) (snd b).

(** indices of the cases on which [f input] differs from the observed output *)
Fixpoint bad_from {A B} (eqb : B -> B -> bool) (f : A -> B) (n : nat) (cases : list (A * B)) : list nat :=
  match cases with
  | [] => []
  | (i, o) :: r => if eqb (f i) o then bad_from eqb f (S n) r else n :: bad_from eqb f (S n) r
  end.

Definition cs_of (l : list (pykey * list Z)) : calls := map (fun c => (fst c, txt (snd c))) l.
Definition ts_of (l : list (list Z)) : list text := map txt l.
Definition ls_of (l : list (pykey * list Z)) : list label := map (fun c => Wr (fst c) (snd c)) l.

(** the pieces reported when `a` alone makes the given writes *)
Definition pieces_run (c : pykey * list (list Z)) : list text :=
  map snd (events (map (Wr (fst c)) (snd c))).

(** whole run: events and the concatenation of what the real stdout received *)
Definition full_run (l : list (pykey * list Z)) : calls * list text :=
  (events (ls_of l), [concat (real (ls_of l))]).

(** `count` copies of one code point (long lines in the case files) *)
Definition rp (count z : Z) : list Z := repeat z (Z.to_nat count).
