(** Executable model (LTS) of the lifecycle of a Nextline object, as implemented
    by nextline/main.py, imp.py (the asyncio.Lock serialising start/run/reset/
    close), continuous.py, fsm/{config,machine,callback}.py,
    plugin/plugins/argument.py, session/session.py (RunSession.run) and the
    registrars that publish state/run info -- the code after the `fix:` commits.
    Definitions only.  (File assembled by coq/gen/gen_life_model.py from
    life_model_head.v + generated setters + life_model_body.v.)

    Granularity.  A transition of the model is one *atomic segment* of a task:
    the code between two suspension points.  Suspension points are
      - a hook gate: every `await ahook.X(...)` waits for the implementations
        of user plugins, which may take arbitrarily long (public plugin API);
      - a genuine wait: the lifecycle lock, `started.wait()`,
        `_run_finished.wait()`, `await _task_run`, process creation, the exit
        of the child process.
    The scheduler is adversarial: [Step t] / [StepRun] advance one task by one
    segment; a label whose task waits on a false condition is a no-op.  "For
    every schedule / history" is "for every [list label]".

    One fairness fact of asyncio is built in (assumption F, DESIGN.md 4.2): the
    run task does not observe the child's exit while the run() call that
    started it still has to perform its (already enabled) state notification.
    It is a guard in [do_step_run] and is validated by the co-simulation. *)
From Coq Require Export List ZArith Bool Arith.
Export ListNotations.
Open Scope Z_scope.

Inductive fsm := Created | Initialized | Running | Finished | Closed.

Record opts := mkOpts {
  o_stmt : option Z; o_start : option Z; o_threads : option bool; o_modules : option bool }.

Record runarg := mkRunArg { ra_no : Z; ra_stmt : Z; ra_threads : bool; ra_modules : bool }.

Inductive outcome := OReturn | ORaise | OSysExit | ODied | OInterrupt.

Inductive call :=
| CStart | CRun | CReset (o : opts) | CClose
| CRunCont | CRunContWait | CRunSession | CSignal | CSend.

Inductive result := ROk | RMachineError | RAssertionError | RAttributeError | RRuntimeError.

Inductive hook :=
| HStart | HChangeScript | HInitRun | HChangeState | HStartRun | HEndRun | HFinished
| HReset | HClose | HSignal | HSend.

(** a hook invocation as a user plugin sees it *)
Record hookrec := mkHook {
  h_hook : hook;
  h_fsm : fsm;                 (* Nextline.state inside the hook *)
  h_runno : option Z;          (* context.run_arg.run_no, None if run_arg is None *)
  h_stmt : option Z;           (* script carried by the hook (on_change_script, run_arg.statement) *)
  h_start : option Z           (* reset hook: reset_options.run_no_start_from *)
}.

Inductive rphase := RInitialized | RRunning | RFinished.

Inductive pub :=
| PState (s : fsm)
| PRunInfo (no : Z) (ph : rphase) (stmt : Z) (res : option outcome)
| PRunNo (no : Z)
| PStatement (s : Z)
| PCont (b : bool)
| PEndAll        (* PubSub.close(): every topic of the broker ended *)
| PEndCont.      (* the `continuous enabled` item closed *)

Inductive event :=
| EvCall (t : nat) (c : call)       (* task t issues the API call c *)
| EvHook (h : hookrec)
| EvPub (p : pub)
| EvRet (t : nat) (c : call) (r : result).

(** program counters of an API task = the suspension point it is at *)
Inductive pc :=
| WaitLock1 | Granted1        (* queued for / just given the lock: start part *)
| WaitLock2 | Granted2        (* the same for the close part of close() *)
| S_G1 | S_G2 | S_G3          (* start: gates start+on_change_script, on_initialize_run, on_change_state *)
| R_WaitStarted | R_G         (* run: started.wait(), gate on_change_state *)
| Z_G1 | Z_G1b | Z_WaitRunTask | Z_G3 | Z_G4
| C_WaitRunFinished | C_WaitRunTask | C_G3 | C_G4
| P_WaitRunFinished           (* run_session / run_continue_and_wait, after the lock *)
| Sig_G.

(** program counters of the run task (Callback._run) *)
Inductive rpc :=
| RT_New | RT_Created | RT_G_start | RT_WaitChild | RT_G_end | RT_G_fin | RT_G_cs.
