Definition init_state (stmt start : Z) (threads modules : bool) : state :=
  mkState Created false false None [] [] None 0%nat false None false None false false None
          stmt start threads modules 0%nat None [] false [].

(** ---- logging ---- *)
Definition publish (s : state) (p : pub) : state := set_trace s (EvPub p :: trace s).
Definition log_hook (s : state) (h : hook) (stmt start : option Z) : state :=
  set_trace s (EvHook (mkHook h (st_fsm s) (option_map ra_no (run_arg s)) stmt start) :: trace s).
Definition add_ret (s : state) (t : nat) (c : call) (r : result) : state :=
  set_trace s (EvRet t c r :: trace s).

(** ---- task table ---- *)
Fixpoint find_task (l : list (nat * (call * pc))) (t : nat) : option (call * pc) :=
  match l with
  | [] => None
  | (t', x) :: r => if Nat.eqb t t' then Some x else find_task r t
  end.

Fixpoint remove_task (l : list (nat * (call * pc))) (t : nat) : list (nat * (call * pc)) :=
  match l with
  | [] => []
  | (t', x) :: r => if Nat.eqb t t' then remove_task r t else (t', x) :: remove_task r t
  end.

(** insert or update *)
Fixpoint put_task (l : list (nat * (call * pc))) (t : nat) (x : call * pc) : list (nat * (call * pc)) :=
  match l with
  | [] => [(t, x)]
  | (t', y) :: r => if Nat.eqb t t' then (t', x) :: r else (t', y) :: put_task r t x
  end.

Definition set_pc (s : state) (t : nat) (c : call) (p : pc) : state :=
  set_tasks s (put_task (tasks s) t (c, p)).

(** the call returns: the task leaves the table *)
Definition finish_call (s : state) (t : nat) (c : call) (r : result) : state :=
  add_ret (set_tasks s (remove_task (tasks s) t)) t c r.

(** ---- the lock (asyncio.Lock: FIFO, handed to the first waiter on release) ---- *)
Definition granted_pc (p : pc) : pc :=
  match p with WaitLock1 => Granted1 | WaitLock2 => Granted2 | x => x end.

Definition release (s : state) : state :=
  match lockq s with
  | [] => set_holder s None
  | t :: q =>
    let s1 := set_lockq (set_holder s (Some t)) q in
    match find_task (tasks s1) t with
    | Some (c, p) => set_pc s1 t c (granted_pc p)
    | None => s1
    end
  end.

(** ---- pieces shared by several calls ---- *)

(** RunArgComposer.compose_run_arg + Callback.initialize_run + the built-in
    implementations of on_initialize_run *)
Definition initialize_run (s : state) : state :=
  let ra := mkRunArg (c_next s) (c_stmt s) (c_threads s) (c_modules s) in
  let s1 := set_c_next s (c_next s + 1) in
  let s2 := set_run_arg s1 (Some ra) in
  let s3 := publish (publish s2 (PRunNo (ra_no ra))) (PRunInfo (ra_no ra) RInitialized (ra_stmt ra) None) in
  log_hook s3 HInitRun (Some (ra_stmt ra)) None.

(** StateMachine.after_state_change -> on_change_state(self.state) *)
Definition change_state_hook (s : state) : state :=
  log_hook (publish s (PState (st_fsm s))) HChangeState None None.

(** ScriptRegistrar.on_change_script *)
Definition change_script (s : state) : state :=
  log_hook (publish s (PStatement (c_stmt s))) HChangeScript (Some (c_stmt s)) None.

(** the plugin of a refused request: registered by task t and never started
    (a plugin of an earlier, accepted request of the same task has started by then) *)
Definition unregister_cont (s : state) (t : nat) : state :=
  set_cont_plugins s (filter (fun x => negb (Nat.eqb (fst x) t && negb (snd x))) (cont_plugins s)).

(** Continuous.disable(): one request less; the flag stays True while others remain *)
Definition cont_disable (s : state) : state :=
  publish s (PCont (match cont_plugins s with [] => false | _ :: _ => true end)).

Definition is_cont (c : call) : bool :=
  match c with CRunCont | CRunContWait => true | _ => false end.

(** a refused request: the exception propagates out of the API call *)
Definition refuse (s : state) (t : nat) (c : call) : state :=
  let s1 := release s in
  if is_cont c then
    (* Continuous._requested: undo; once the object is closed the flag is no longer published *)
    if cont_closed s1 then finish_call (unregister_cont s1 t) t c RMachineError
    else finish_call (cont_disable (unregister_cont s1 t)) t c RMachineError
  else finish_call s1 t c RMachineError.

(** ---- first segment of each call once it holds the lock ---- *)

(** Imp.aopen: hook.init, then the trigger `initialize` up to its first gate *)
Definition enter_start (s : state) (t : nat) (c : call) : state :=
  match st_fsm s with
  | Created => set_pc (change_script (log_hook s HStart None None)) t c S_G1
  | _ => refuse s t c
  end.

Definition enter_run (s : state) (t : nat) (c : call) : state :=
  match st_fsm s with
  | Initialized =>
    let s1 := set_st_fsm s Running in
    (* Callback.start_run *)
    let s2 := set_run_cont (set_run_owner (set_started_ev (set_run_finished (set_runt s1 (Some RT_New)) (Some false)) false) t)
                           (is_cont c) in
    set_pc s2 t c R_WaitStarted
  | _ => refuse s t c
  end.

Definition apply_rest (s : state) (o : opts) : state :=
  let s1 := match o_start o with Some n => set_c_next s n | None => s end in
  let s2 := match o_threads o with Some b => set_c_threads s1 b | None => s1 end in
  match o_modules o with Some b => set_c_modules s2 b | None => s2 end.

Definition enter_reset (s : state) (t : nat) (o : opts) : state :=
  match st_fsm s with
  | Initialized | Finished =>
    let s1 := log_hook s HReset (o_stmt o) (o_start o) in
    match o_stmt o with
    | Some x => set_pc (change_script (set_c_stmt s1 x)) t (CReset o) Z_G1
    | None => set_pc (apply_rest s1 o) t (CReset o) Z_G1b
    end
  | _ => refuse s t (CReset o)
  end.

(** the trigger `close` from its (current) source state up to the gate of the close hook *)
Definition close_enter_closed (s : state) (t : nat) : state :=
  set_pc (log_hook (set_st_fsm s Closed) HClose None None) t CClose C_G3.

(** Continuous.close() *)
(** Continuous.close: requests still waiting for their turn will be refused: the flag goes off first *)
Definition cont_off_events (s : state) : list event :=
  match cont_plugins s with [] => [] | _ :: _ => [EvPub (PCont false)] end.
Definition close_cont (s : state) : state :=
  publish (set_cont_closed (set_trace s (cont_off_events s ++ trace s)) true) PEndCont.

Definition close_trigger (s : state) (t : nat) : state :=
  match st_fsm s with
  | Closed =>       (* internal transition: no callbacks *)
    finish_call (close_cont (publish (release s) PEndAll)) t CClose ROk
  | Finished =>
    match runt s with
    | Some _ => set_pc s t CClose C_WaitRunTask
    | None => close_enter_closed s t
    end
  | Created => close_enter_closed (change_script (log_hook s HStart None None)) t
  | _ => close_enter_closed s t
  end.

(** Imp.aclose once it holds the lock *)
Definition enter_close (s : state) (t : nat) : state :=
  let s1 := publish s PEndAll in
  match st_fsm s1 with
  | Running =>
    match run_finished s1 with
    | None => finish_call (release s1) t CClose RAttributeError
    | Some true => close_trigger s1 t
    | Some false => set_pc s1 t CClose C_WaitRunFinished
    end
  | _ => close_trigger s1 t
  end.

Definition enter (s : state) (t : nat) (c : call) (part2 : bool) : state :=
  match c with
  | CStart => enter_start s t c
  | CClose => if part2 then enter_close s t else enter_start s t c
  | CReset o => enter_reset s t o
  | CRun | CRunCont | CRunContWait | CRunSession => enter_run s t c
  | _ => s
  end.

(** `async with self._lock`: immediate if free and nobody waits *)
Definition acquire (s : state) (t : nat) (c : call) (part2 : bool) : state :=
  match holder s, lockq s with
  | None, [] =>
    enter (set_pc (set_holder s (Some t)) t c (if part2 then Granted2 else Granted1)) t c part2
  | _, _ => set_pc (set_lockq s (lockq s ++ [t])) t c (if part2 then WaitLock2 else WaitLock1)
  end.

(** ---- labels ---- *)
Inductive label :=
| Call (t : nat) (c : call)
| Step (t : nat)
| StepRun
| ChildExit (o : outcome).

Definition do_call (s : state) (t : nat) (c : call) : state :=
  match find_task (tasks s) t with
  | Some _ => s                        (* the task is busy: not a possible label *)
  | None =>
    let s0 := set_trace s (EvCall t c :: trace s) in
    match c with
    | CStart =>
      if nl_started s0 then finish_call s0 t c ROk
      else acquire (publish (set_nl_started s0 true) (PCont false)) t c false
    | CClose =>
      if nl_closed s0 then finish_call s0 t c ROk
      else
        let s1 := set_nl_closed s0 true in
        if nl_started s1 then acquire s1 t c true
        else acquire (publish (set_nl_started s1 true) (PCont false)) t c false
    | CRun | CRunSession | CReset _ => acquire s0 t c false
    | CRunCont | CRunContWait =>
      (* PubSubItem.publish on a closed item raises RuntimeError *)
      if cont_closed s0 then finish_call s0 t c RRuntimeError
      else acquire (set_cont_plugins (publish s0 (PCont true)) (cont_plugins s0 ++ [(t, false)])) t c false
    | CSignal =>
      (* the user plugins' implementations run in any case; the built-in one asserts *)
      if running_process s0 then set_pc (log_hook s0 HSignal None None) t c Sig_G
      else finish_call (log_hook s0 HSignal None None) t c RAssertionError
    | CSend =>
      if send_command s0 then set_pc (log_hook s0 HSend None None) t c Sig_G
      else finish_call (log_hook s0 HSend None None) t c RAssertionError
    end
  end.

(** the re-initialisation part of reset (also used after waiting for the run task) *)
Definition reset_reinit (s : state) (t : nat) (c : call) : state :=
  set_pc (initialize_run (set_st_fsm s Initialized)) t c Z_G3.

Definition do_step (s : state) (t : nat) : state :=
  match find_task (tasks s) t with
  | None => s
  | Some (c, p) =>
    match p with
    | WaitLock1 | WaitLock2 => s                                   (* waits for the lock *)
    | Granted1 => enter s t c false
    | Granted2 => enter s t c true
    | S_G1 => set_pc (initialize_run (set_st_fsm s Initialized)) t c S_G2
    | S_G2 => set_pc (change_state_hook s) t c S_G3
    | S_G3 =>
      let s1 := release s in
      match c with
      | CClose => acquire s1 t c true
      | _ => finish_call s1 t c ROk
      end
    | R_WaitStarted =>
      if started_ev s then set_pc (change_state_hook s) t c R_G else s
    | R_G =>
      let s1 := release s in
      match c with
      | CRunContWait | CRunSession => set_pc s1 t c P_WaitRunFinished
      | _ => finish_call s1 t c ROk
      end
    | P_WaitRunFinished =>
      match run_finished s with
      | Some true => finish_call s t c ROk
      | _ => s
      end
    | Z_G1 =>
      match c with
      | CReset o => set_pc (apply_rest s o) t c Z_G1b
      | _ => s
      end
    | Z_G1b =>
      match st_fsm s, runt s with
      | Finished, Some _ => set_pc s t c Z_WaitRunTask
      | _, _ => reset_reinit s t c
      end
    | Z_WaitRunTask =>
      match runt s with
      | None => reset_reinit s t c
      | Some _ => s
      end
    | Z_G3 => set_pc (change_state_hook s) t c Z_G4
    | Z_G4 => finish_call (release s) t c ROk
    | C_WaitRunFinished =>
      match run_finished s with
      | Some true => close_trigger s t
      | _ => s
      end
    | C_WaitRunTask =>
      match runt s with
      | None => close_enter_closed s t
      | Some _ => s
      end
    | C_G3 => set_pc (change_state_hook s) t c C_G4
    (* Imp.aclose: the topics created again since the first pubsub.close() are ended before the return *)
    | C_G4 => finish_call (close_cont (publish (release s) PEndAll)) t c ROk
    | Sig_G => finish_call s t c ROk
    end
  end.

(** assumption F: the run() call that started the run (it holds the lock) is still at
    `started.wait()` although `started` is set *)
Definition run_call_pending (s : state) : bool :=
  match holder s with
  | Some t => match find_task (tasks s) t with Some (_, R_WaitStarted) => true | _ => false end
  | None => false
  end.

(** Continue.on_start_run: only the plugin of the request that started this run
    (`_REQUESTING.get() is self` in the context the run task inherited) *)
Definition arm (requested : bool) (owner : nat) (l : list (nat * bool)) : list (nat * bool) :=
  map (fun x => (fst x, snd x || (requested && Nat.eqb (fst x) owner))) l.

(** Continue.on_finished of every registered plugin whose run started:
    unregister itself, then Continuous.disable() *)
Fixpoint cont_finished (s : state) (n : nat) : state :=
  match n with
  | O => s
  | S n =>
    match filter (fun x => snd x) (cont_plugins s) with
    | [] => s
    | (t, _) :: _ =>
      let rest := filter (fun x => negb (snd x && Nat.eqb (fst x) t)) (cont_plugins s) in
      cont_finished (cont_disable (set_cont_plugins s rest)) n
    end
  end.

(** Callback._finish up to the gate of on_finished *)
Definition run_finish (s : state) : state :=
  let s1 := set_started_ev s true in                               (* started.set() in finally *)
  let s2 := set_run_arg s1 None in
  match st_fsm s2 with
  | Running =>
    let s3 := log_hook (set_st_fsm s2 Finished) HFinished None None in
    set_runt (cont_finished s3 (length (cont_plugins s3))) (Some RT_G_fin)
  | _ =>
    (* MachineError out of the nested trigger: `finally: _run_finished.set()`, task ends *)
    set_run_finished (set_runt s2 None) (Some true)
  end.

Definition do_step_run (s : state) : state :=
  match runt s with
  | None => s
  | Some RT_New =>
    match run_arg s with
    | None => run_finish s                                       (* `assert context.run_arg` *)
    | Some _ =>
      (* exited_process = None; send_command set; the process gets created *)
      let s1 := set_send_command (set_exited_proc s None) true in
      set_runt (set_alive s1 (S (alive s1))) (Some RT_Created)
    end
  | Some RT_Created =>
    let s1 := set_running_process s true in
    match run_arg s1 with
    | Some ra =>
      let s2 := publish s1 (PRunInfo (ra_no ra) RRunning (ra_stmt ra) None) in
      let s3 := log_hook s2 HStartRun (Some (ra_stmt ra)) None in
      set_runt (set_cont_plugins s3 (arm (run_cont s3) (run_owner s3) (cont_plugins s3))) (Some RT_G_start)
    | None => run_finish s1
    end
  | Some RT_G_start => set_runt (set_started_ev s true) (Some RT_WaitChild)
  | Some RT_WaitChild =>
    if run_call_pending s then s else
    match pending_exit s with
    | None => s
    | Some o =>
      let s1 := set_pending_exit s None in
      let s2 := set_exited_proc (set_running_process s1 false) (Some o) in
      match run_arg s2 with
      | Some ra =>
        let s3 := publish s2 (PRunInfo (ra_no ra) RFinished (ra_stmt ra) (Some o)) in
        set_runt (log_hook s3 HEndRun None None) (Some RT_G_end)
      | None => run_finish s2
      end
    end
  | Some RT_G_end => run_finish s
  | Some RT_G_fin => set_runt (change_state_hook s) (Some RT_G_cs)
  | Some RT_G_cs => set_run_finished (set_runt s None) (Some true)
  end.

Definition do_child_exit (s : state) (o : outcome) : state :=
  match alive s with
  | O => s
  | S n => set_pending_exit (set_alive s n) (Some o)
  end.

Definition step (s : state) (l : label) : state :=
  match l with
  | Call t c => do_call s t c
  | Step t => do_step s t
  | StepRun => do_step_run s
  | ChildExit o => do_child_exit s o
  end.

Definition run_labels (s : state) (ls : list label) : state := fold_left step ls s.

(** ---- which waits resolve by themselves (used by the co-simulation only) ----
    The harness controls: calls, the release of hook gates, the exit of the
    child.  Everything else happens on its own as soon as it is enabled. *)
Definition auto_pc (p : pc) : bool :=
  match p with
  | Granted1 | Granted2 | R_WaitStarted | P_WaitRunFinished | Z_WaitRunTask
  | C_WaitRunFinished | C_WaitRunTask | Sig_G => true     (* the co-simulation does not hold signal/command hooks *)
  | _ => false
  end.

Definition auto_rpc (r : rpc) : bool :=
  match r with RT_New | RT_Created | RT_WaitChild => true | _ => false end.

(** one round: the run task, then every API task at a self-resolving wait *)
Definition settle_round (s : state) : state :=
  let s1 := match runt s with Some r => if auto_rpc r then do_step_run s else s | None => s end in
  fold_left (fun st x => match find_task (tasks st) (fst x) with
                         | Some (_, p) => if auto_pc p then do_step st (fst x) else st
                         | None => st end) (tasks s1) s1.

Fixpoint settle (fuel : nat) (s : state) : state :=
  match fuel with
  | O => s
  | S n => settle n (settle_round s)
  end.
